(* Memfs/Wf.v — C03: the namespace stays a well-formed tree.  WF is the statement's conjunction;
   it is shown to hold initially and to be preserved by every operation of the mirror, whatever
   the arguments and whether the call succeeds or fails. *)
From stdpp Require Import gmap.
From Coq Require Import NArith.
From RV Require Import Base.Str Base.PathLex Path.Helpers Path.Expand Memfs.State Memfs.Ops.

Definition files_of (e : entry) : gset (list N) := default ∅ (e_files e).
Definition real_dir (e : entry) : Prop := e_dir e = true ∧ e_link e = false.

Record WF (m : mfs) : Prop := {
  (* the root exists and is a real directory *)
  wf_root : ∃ r, m_ents m !! [] = Some r ∧ real_dir r;
  (* every entry reports the path it is stored under *)
  wf_key : ∀ p e, m_ents m !! p = Some e → e_path e = p;
  (* every existing path other than the root has an existing parent that is a real directory and lists it *)
  wf_par : ∀ n d e, m_ents m !! (n :: d) = Some e →
             ∃ pe, m_ents m !! d = Some pe ∧ real_dir pe ∧ n ∈ files_of pe;
  (* every name a directory lists exists *)
  wf_chl : ∀ p e n, m_ents m !! p = Some e → n ∈ files_of e → is_Some (m_ents m !! (n :: p));
  (* exactly the regular non-link files have byte content *)
  wf_dat : ∀ p, is_Some (m_data m !! p) ↔ ∃ e, m_ents m !! p = Some e ∧ e_file e = true ∧ e_link e = false;
  (* a child-name set is present exactly on directory-kinded entries; links list nothing *)
  wf_fls : ∀ p e, m_ents m !! p = Some e → (e_files e = None ↔ e_dir e = false);
  wf_lnk : ∀ p e, m_ents m !! p = Some e → e_link e = true → files_of e = ∅;
  (* the root is the root *)
  wf_rootpath : m_root m = []
}.

(* an entry as MemfsEntryOpts::build produces it *)
Definition fresh (e : entry) : Prop := e_files e = (if e_dir e then Some ∅ else None).

Lemma files_of_fresh e : fresh e → files_of e = ∅.
Proof. unfold fresh, files_of. intros ->. by destruct (e_dir e). Qed.

Lemma fresh_new_file p : fresh (new_file p).
Proof. done. Qed.
Lemma fresh_new_dir p mode : fresh (new_dir p mode).
Proof. done. Qed.
Lemma fresh_new_link p t d : fresh (new_link p t d).
Proof. unfold fresh, new_link. simpl. by destruct d. Qed.

Lemma wf_init : WF mfs_init.
Proof.
  constructor; unfold mfs_init; cbn [m_ents m_data m_root m_cwd].
  - eexists. rewrite lookup_singleton. done.
  - intros p e H. apply lookup_singleton_Some in H as [<- <-]. done.
  - intros n d e H. apply lookup_singleton_Some in H as [? ?]. done.
  - intros p e n H Hin. apply lookup_singleton_Some in H as [<- <-]. unfold files_of in Hin. simpl in Hin. set_solver.
  - intros p. rewrite lookup_empty. split; [intros [? ?]; done|].
    intros (e & H & Hf & _). apply lookup_singleton_Some in H as [<- <-]. done.
  - intros p e H. apply lookup_singleton_Some in H as [<- <-]. done.
  - intros p e H. apply lookup_singleton_Some in H as [<- <-]. done.
  - done.
Qed.

Lemma files_of_entry_add pe n : e_dir pe = true → e_files pe ≠ None →
  files_of (entry_add pe n).1 = {[ n ]} ∪ files_of pe.
Proof. unfold entry_add, files_of. destruct (e_files pe); [done|congruence]. Qed.

Lemma entry_add_same pe n :
  let pe' := (entry_add pe n).1 in
  e_path pe' = e_path pe ∧ e_dir pe' = e_dir pe ∧ e_file pe' = e_file pe ∧ e_link pe' = e_link pe ∧ e_files pe' ≠ None.
Proof. unfold entry_add. destruct (e_files pe); simpl; done. Qed.

(* ---- P1: Memfs::_add preserves WF, whether it succeeds or fails ---- *)
Lemma add_wf m e : WF m → fresh e → WF (add m e).1.
Proof.
  intros HW Hf. unfold add.
  destruct (e_path e) as [|n dir] eqn:Hp; [by destruct (e_file e)|].
  destruct (m_ents m !! dir) as [pe|] eqn:Hd; [|exact HW].
  destruct (negb (e_dir pe) || e_link pe) eqn:Hpd; [exact HW|].
  apply orb_false_iff in Hpd as [Hpd1 Hpd2]. apply negb_false_iff in Hpd1.
  destruct (m_ents m !! (n :: dir)) as [x|] eqn:Hx.
  { repeat case_match; exact HW. }
  assert (Hne : dir ≠ n :: dir) by (intros H; apply (f_equal length) in H; simpl in H; lia).
  assert (Hpfiles : e_files pe ≠ None) by (intros H; apply (wf_fls m HW dir pe Hd) in H; congruence).
  assert (Hnin : n ∉ files_of pe).
  { intros Hin. destruct (wf_chl m HW dir pe n Hd Hin) as [? ?]. congruence. }
  set (m1 := if negb (e_link e) && e_file e then upd_data m (insert (n :: dir) []) else m).
  assert (Hm1e : m_ents m1 = m_ents m) by (unfold m1; by case_match).
  assert (Hlk : m_ents (upd_ents m1 (insert (n :: dir) e)) !! dir = Some pe).
  { cbn [upd_ents m_ents]. rewrite lookup_insert_ne by done. by rewrite Hm1e. }
  rewrite Hlk.
  destruct (entry_add pe n) as [pe' fr] eqn:Ea.
  assert (Hpe' : pe' = (entry_add pe n).1) by (by rewrite Ea).
  destruct (entry_add_same pe n) as (Hs1 & Hs2 & Hs3 & Hs4 & Hs5). rewrite <- Hpe' in *.
  assert (Hfo : files_of pe' = {[ n ]} ∪ files_of pe) by (rewrite Hpe'; by apply files_of_entry_add).
  assert (HWres : WF (upd_ents (upd_ents m1 (insert (n :: dir) e)) (insert dir pe'))).
  { constructor; cbn [upd_ents m_ents m_data m_root m_cwd]; rewrite ?Hm1e.
    - destruct (wf_root m HW) as (r & Hr & Hrd).
      destruct (decide (dir = [])) as [->|Hdn].
      + rewrite lookup_insert. eexists; split; [done|]. rewrite Hr in Hd. simplify_eq. split; congruence.
      + rewrite lookup_insert_ne by done. rewrite lookup_insert_ne by done. eauto.
    - intros p e' Hl. destruct (decide (p = dir)) as [->|Hn1].
      + rewrite lookup_insert in Hl. simplify_eq. rewrite Hs1. by eapply wf_key.
      + rewrite lookup_insert_ne in Hl by done. destruct (decide (p = n :: dir)) as [->|Hn2].
        * rewrite lookup_insert in Hl. by simplify_eq.
        * rewrite lookup_insert_ne in Hl by done. by eapply wf_key.
    - intros n' d e' Hl.
      assert (Hparent_dir : ∀ pe0, m_ents m !! d = Some pe0 → real_dir pe0 → n' ∈ files_of pe0 →
        ∃ pe'', <[dir:=pe']> (<[n :: dir:=e]> (m_ents m)) !! d = Some pe'' ∧ real_dir pe'' ∧ n' ∈ files_of pe'').
      { intros pe0 Hpe0 Hrd Hin. destruct (decide (d = dir)) as [->|Hdd].
        - rewrite lookup_insert. eexists; split; [done|]. simplify_eq. split; [split; congruence|]. rewrite Hfo. set_solver.
        - rewrite lookup_insert_ne by done. destruct (decide (d = n :: dir)) as [->|Hdd2].
          + congruence.
          + rewrite lookup_insert_ne by done. eauto. }
      destruct (decide (n' :: d = dir)) as [<-|Hn1].
      + rewrite lookup_insert in Hl. simplify_eq.
        destruct (wf_par m HW _ _ _ Hd) as (pe0 & H1 & H2 & H3). eauto.
      + rewrite lookup_insert_ne in Hl by done. destruct (decide (n' :: d = n :: dir)) as [Heq|Hn2].
        * simplify_eq. rewrite lookup_insert. eexists; split; [done|]. split; [split; congruence|]. rewrite Hfo. set_solver.
        * rewrite lookup_insert_ne in Hl by done. destruct (wf_par m HW _ _ _ Hl) as (pe0 & H1 & H2 & H3). eauto.
    - intros p e' n' Hl Hin.
      assert (Hkeep : ∀ q, is_Some (m_ents m !! q) → is_Some (<[dir:=pe']> (<[n :: dir:=e]> (m_ents m)) !! q)).
      { intros q Hq. destruct (decide (q = dir)) as [->|?]; [rewrite lookup_insert; eauto|].
        rewrite lookup_insert_ne by done. destruct (decide (q = n :: dir)) as [->|?]; [rewrite lookup_insert; eauto|].
        by rewrite lookup_insert_ne. }
      destruct (decide (p = dir)) as [->|Hn1].
      + rewrite lookup_insert in Hl. simplify_eq. rewrite Hfo in Hin.
        apply elem_of_union in Hin as [Hin|Hin].
        * apply elem_of_singleton in Hin as ->. rewrite lookup_insert_ne by done. rewrite lookup_insert. eauto.
        * apply Hkeep. by eapply wf_chl.
      + rewrite lookup_insert_ne in Hl by done. destruct (decide (p = n :: dir)) as [->|Hn2].
        * rewrite lookup_insert in Hl. simplify_eq. rewrite files_of_fresh in Hin by done. set_solver.
        * rewrite lookup_insert_ne in Hl by done. apply Hkeep. by eapply wf_chl.
    - intros p.
      assert (Hd1 : ∀ q, q ≠ n :: dir → m_data m1 !! q = m_data m !! q).
      { intros q Hq. unfold m1. case_match; [cbn; by rewrite lookup_insert_ne|done]. }
      destruct (decide (p = dir)) as [->|Hn1].
      + rewrite lookup_insert, Hd1 by done. rewrite (wf_dat m HW dir). split.
        * intros (e0 & H0 & H1 & H2). simplify_eq. eexists; split; [done|]. split; congruence.
        * intros (e0 & H0 & H1 & H2). simplify_eq. exists pe. split; [done|]. split; congruence.
      + rewrite lookup_insert_ne by done. destruct (decide (p = n :: dir)) as [->|Hn2].
        * rewrite lookup_insert. unfold m1. destruct (e_link e) eqn:El, (e_file e) eqn:Ef; simpl.
          -- rewrite (wf_dat m HW). split; [intros (e0 & H0 & _); congruence | intros (e0 & H0 & H1 & H2); simplify_eq; congruence].
          -- rewrite (wf_dat m HW). split; [intros (e0 & H0 & _); congruence | intros (e0 & H0 & H1 & H2); simplify_eq; congruence].
          -- rewrite lookup_insert. split; eauto.
          -- rewrite (wf_dat m HW). split; [intros (e0 & H0 & _); congruence | intros (e0 & H0 & H1 & H2); simplify_eq; congruence].
        * rewrite lookup_insert_ne by done. rewrite Hd1 by done. apply (wf_dat m HW).
    - intros p e' Hl. destruct (decide (p = dir)) as [->|Hn1].
      + rewrite lookup_insert in Hl. simplify_eq. split; [done|congruence].
      + rewrite lookup_insert_ne in Hl by done. destruct (decide (p = n :: dir)) as [->|Hn2].
        * rewrite lookup_insert in Hl. simplify_eq. rewrite Hf. by destruct (e_dir e').
        * rewrite lookup_insert_ne in Hl by done. by eapply wf_fls.
    - intros p e' Hl Hlk'. destruct (decide (p = dir)) as [->|Hn1].
      + rewrite lookup_insert in Hl. simplify_eq. congruence.
      + rewrite lookup_insert_ne in Hl by done. destruct (decide (p = n :: dir)) as [->|Hn2].
        * rewrite lookup_insert in Hl. simplify_eq. by apply files_of_fresh.
        * rewrite lookup_insert_ne in Hl by done. by eapply wf_lnk.
    - unfold m1. case_match; cbn; apply (wf_rootpath m HW). }
  destruct fr; exact HWres.
Qed.

(* WF only looks at the three indexes and the root *)
Lemma WF_ext m m' : m_ents m' = m_ents m → m_data m' = m_data m → m_root m' = m_root m → WF m → WF m'.
Proof.
  intros He Hd Hr HW. constructor; rewrite ?He, ?Hd, ?Hr; apply HW.
Qed.

(* ---- P2: replacing the bytes of a file that has bytes ---- *)
Lemma data_set_wf m p d : WF m → is_Some (m_data m !! p) → WF (upd_data m (insert p d)).
Proof.
  intros HW Hs. constructor; cbn [upd_data m_ents m_data m_root]; try apply HW.
  intros q. destruct (decide (q = p)) as [->|Hn].
  - rewrite lookup_insert. split; [intros _; by apply (wf_dat m HW) | eauto].
  - rewrite lookup_insert_ne by done. apply (wf_dat m HW).
Qed.

Lemma mkdir_loop_wf ps : ∀ m mode, WF m → WF (mkdir_loop m ps mode).1.
Proof.
  induction ps as [|p ps IH]; intros m mode HW; cbn [mkdir_loop]; [exact HW|].
  pose proof (add_wf m (new_dir p mode) HW (fresh_new_dir p mode)) as H.
  destruct (add m (new_dir p mode)) as [m' [r|e]]; cbn [fst] in *; [by apply IH | exact H].
Qed.

Lemma mkdir_m_abs_wf m p mode : WF m → WF (mkdir_m_abs m p mode).1.
Proof.
  intros HW. unfold mkdir_m_abs.
  pose proof (add_wf m (new_dir [] mode) HW (fresh_new_dir [] mode)) as H.
  destruct (add m (new_dir [] mode)) as [m0 [r|e]]; cbn [fst] in *; [by apply mkdir_loop_wf | exact H].
Qed.

Lemma symlink_wf env m l t : WF m → WF (symlink_op env m l t).1.
Proof.
  intros HW. unfold symlink_op. destruct (resolve env m l) as [lp|e]; [|exact HW].
  destruct (if is_absolute t then _ else _) as [t'|e]; [|exact HW].
  destruct (resolve env m t') as [tp|e]; [|exact HW].
  case_bool_decide; [exact HW|].
  destruct lp as [|b d]; [exact HW|]. apply add_wf; [exact HW | apply fresh_new_link].
Qed.

Lemma write_all_wf env m s d : WF m → WF (write_all_op env m s d).1.
Proof.
  intros HW. unfold write_all_op. destruct (resolve env m s) as [p|e]; [|exact HW].
  pose proof (add_wf m (new_file p) HW (fresh_new_file p)) as H.
  destruct (add m (new_file p)) as [m' [r|e]]; cbn [fst] in *; [|exact H].
  destruct (m_data m' !! p) eqn:E; cbn [fst]; [|exact H]. apply data_set_wf; [exact H | eauto].
Qed.

Lemma append_all_wf env m s d : WF m → WF (append_all_op env m s d).1.
Proof.
  intros HW. unfold append_all_op. destruct (resolve env m s) as [p|e]; [|exact HW].
  pose proof (add_wf m (new_file p) HW (fresh_new_file p)) as H.
  destruct (add m (new_file p)) as [m' [r|e]]; cbn [fst] in *; [|exact H].
  destruct (m_data m' !! p) eqn:E; cbn [fst]; [|exact H]. apply data_set_wf; [exact H | eauto].
Qed.

Lemma set_cwd_wf env m s : WF m → WF (set_cwd_op env m s).1.
Proof.
  intros HW. unfold set_cwd_op. repeat case_match; cbn [fst]; try exact HW;
    (eapply WF_ext; [| | |exact HW]; done).
Qed.

(* ---- P3: unlinking a leaf: out of its parent's listing, out of the data map, out of the entries ---- *)
Lemma files_of_entry_remove pe n : files_of (entry_remove pe n) = files_of pe ∖ {[ n ]}.
Proof.
  unfold entry_remove, files_of. destruct (e_files pe) as [fs|] eqn:E; cbn.
  - reflexivity.
  - rewrite E. cbn. apply leibniz_equiv. set_solver.
Qed.

Lemma entry_remove_same pe n :
  let pe' := entry_remove pe n in
  e_path pe' = e_path pe ∧ e_dir pe' = e_dir pe ∧ e_file pe' = e_file pe ∧ e_link pe' = e_link pe ∧
  (e_files pe' = None ↔ e_files pe = None).
Proof. unfold entry_remove. destruct (e_files pe) eqn:E; simpl; rewrite ?E; repeat split; try done; intros; congruence. Qed.

Lemma unlink_leaf_wf m n dir e pe : WF m →
  m_ents m !! (n :: dir) = Some e → files_of e = ∅ → m_ents m !! dir = Some pe →
  WF (upd_ents (upd_data (upd_ents m (insert dir (entry_remove pe n))) (delete (n :: dir))) (delete (n :: dir))).
Proof.
  intros HW He Hleaf Hpe.
  assert (Hne : dir ≠ n :: dir) by (intros H; apply (f_equal length) in H; simpl in H; lia).
  destruct (entry_remove_same pe n) as (Hs1 & Hs2 & Hs3 & Hs4 & Hs5).
  pose proof (files_of_entry_remove pe n) as Hfo.
  set (pe' := entry_remove pe n) in *.
  constructor; cbn [upd_ents upd_data m_ents m_data m_root].
  - destruct (wf_root m HW) as (r & Hr & Hrd). rewrite lookup_delete_ne by done.
    destruct (decide (dir = [])) as [->|Hdn].
    + rewrite lookup_insert. eexists; split; [done|]. rewrite Hr in Hpe. simplify_eq. destruct Hrd. split; congruence.
    + rewrite lookup_insert_ne by done. eauto.
  - intros p e' Hl. apply lookup_delete_Some in Hl as [Hn Hl]. destruct (decide (p = dir)) as [->|Hn1].
    + rewrite lookup_insert in Hl. simplify_eq. rewrite Hs1. by eapply wf_key.
    + rewrite lookup_insert_ne in Hl by done. by eapply wf_key.
  - intros n' d e' Hl. apply lookup_delete_Some in Hl as [Hn Hl].
    assert (He' : m_ents m !! (n' :: d) = Some e' ∨ (n' :: d = dir ∧ e' = pe')).
    { destruct (decide (n' :: d = dir)) as [Heq|Hneq]; [rewrite Heq, lookup_insert in Hl; simplify_eq; by right|].
      rewrite lookup_insert_ne in Hl by done. by left. }
    assert (Horig : ∃ e0, m_ents m !! (n' :: d) = Some e0).
    { destruct He' as [H|[H1 H2]]; [eauto|]. rewrite H1. eauto. }
    destruct Horig as (e0 & He0). destruct (wf_par m HW _ _ _ He0) as (pe0 & H1 & H2 & H3).
    assert (Hdne : d ≠ n :: dir).
    { intros ->. rewrite He in H1. simplify_eq. rewrite Hleaf in H3. set_solver. }
    rewrite lookup_delete_ne by done. destruct (decide (d = dir)) as [->|Hdd].
    + rewrite lookup_insert. eexists; split; [done|]. simplify_eq. split; [destruct H2; split; congruence|].
      rewrite Hfo. apply elem_of_difference. split; [done|]. intros Hx. apply elem_of_singleton in Hx. subst n'. done.
    + rewrite lookup_insert_ne by done. eauto.
  - intros p e' n' Hl Hin. apply lookup_delete_Some in Hl as [Hn Hl].
    assert (Hkeep : ∀ q, q ≠ n :: dir → is_Some (m_ents m !! q) → is_Some (delete (n :: dir) (<[dir:=pe']> (m_ents m)) !! q)).
    { intros q Hq Hs. rewrite lookup_delete_ne by done. destruct (decide (q = dir)) as [->|?]; [rewrite lookup_insert; eauto|].
      by rewrite lookup_insert_ne. }
    destruct (decide (p = dir)) as [->|Hn1].
    + rewrite lookup_insert in Hl. simplify_eq. rewrite Hfo in Hin. apply elem_of_difference in Hin as [Hin Hnn].
      apply Hkeep; [intros Heq; simplify_eq; set_solver | by eapply wf_chl].
    + rewrite lookup_insert_ne in Hl by done. apply Hkeep; [intros Heq; simplify_eq | by eapply wf_chl].
  - intros p. destruct (decide (p = n :: dir)) as [->|Hn].
    + rewrite !lookup_delete. split; [intros [? ?]; done | intros (? & ? & _); done].
    + rewrite !lookup_delete_ne by done. rewrite (wf_dat m HW p). destruct (decide (p = dir)) as [->|Hn1].
      * rewrite lookup_insert. split; intros (e0 & H0 & H1 & H2); simplify_eq; eexists; (split; [done|]); split; congruence.
      * rewrite lookup_insert_ne by done. done.
  - intros p e' Hl. apply lookup_delete_Some in Hl as [Hn Hl]. destruct (decide (p = dir)) as [->|Hn1].
    + rewrite lookup_insert in Hl. simplify_eq. rewrite Hs5, Hs2. by eapply wf_fls.
    + rewrite lookup_insert_ne in Hl by done. by eapply wf_fls.
  - intros p e' Hl Hlk. apply lookup_delete_Some in Hl as [Hn Hl]. destruct (decide (p = dir)) as [->|Hn1].
    + rewrite lookup_insert in Hl. simplify_eq. rewrite Hfo. rewrite (wf_lnk m HW dir pe Hpe) by congruence. set_solver.
    + rewrite lookup_insert_ne in Hl by done. by eapply wf_lnk.
  - apply (wf_rootpath m HW).
Qed.

Lemma entry_remove_notin pe n : n ∉ files_of pe → entry_remove pe n = pe.
Proof.
  unfold entry_remove, files_of. destruct pe as [p a r d f l mo u g fo fs]; cbn. destruct fs as [fs|]; cbn; [|done].
  intros Hn. unfold set_files; cbn. do 2 f_equal. apply leibniz_equiv. set_solver.
Qed.

Lemma mfs_eta m : mkMfs (m_cwd m) (m_root m) (m_ents m) (m_data m) = m.
Proof. by destruct m. Qed.

(* Memfs::remove *)
Lemma remove_wf env m s : WF m → WF (remove_op env m s).1.
Proof.
  intros HW. unfold remove_op. destruct (resolve env m s) as [p|e]; [|exact HW].
  destruct (bool_decide (is_Some (m_ents m !! p))) eqn:Hex; cbn [negb]; [|exact HW].
  destruct (match m_ents m !! p with Some e => _ | None => false end) eqn:Hnonempty; [exact HW|].
  destruct p as [|base dir]; [exact HW|].
  destruct (m_ents m !! dir) as [pe|] eqn:Hpe.
  - destruct (e_dir pe) eqn:Hpd; [|exact HW]. cbn [fst].
    destruct (m_ents m !! (base :: dir)) as [e|] eqn:He.
    + (* the entry exists: it is a leaf *)
      assert (Hleaf : files_of e = ∅).
      { unfold files_of. destruct (e_files e) as [fs|]; [|done]. cbn.
        apply negb_false_iff in Hnonempty. by apply bool_decide_eq_true in Hnonempty. }
      assert (Hne : dir ≠ base :: dir) by (intros H; apply (f_equal length) in H; simpl in H; lia).
      cbn [upd_ents m_ents]. rewrite lookup_insert_ne by done. rewrite He.
      pose proof (unlink_leaf_wf m base dir e pe HW He Hleaf Hpe) as H.
      destruct (e_file e) eqn:Hf; [exact H|].
      (* not a file: there is no data to delete *)
      eapply WF_ext; [| | |exact H]; cbn [upd_ents upd_data m_ents m_data m_root]; try done.
      symmetry. apply delete_notin. destruct (m_data m !! (base :: dir)) eqn:Hd; [|done].
      assert (is_Some (m_data m !! (base :: dir))) as Hs by eauto. apply (wf_dat m HW) in Hs as (e0 & H0 & H1 & _). congruence.
    + (* nothing there: excluded by the existence check *)
      exfalso. apply bool_decide_eq_true in Hex. by destruct Hex.
  - cbn [fst]. destruct (m_ents m !! (base :: dir)) as [e|] eqn:He.
    + destruct (wf_par m HW _ _ _ He) as (pe & H1 & _). congruence.
    + exfalso. apply bool_decide_eq_true in Hex. by destruct Hex.
Qed.

(* Memfs::remove_all: every iteration of the worklist loop preserves WF *)
Lemma remove_all_loop_wf fuel : ∀ m paths r, WF m → remove_all_loop fuel m paths = Done r → WF r.1.
Proof.
  induction fuel as [|f IH]; intros m paths r HW; cbn [remove_all_loop]; [discriminate|].
  destruct paths as [|p rest]; [intros H; injection H as <-; exact HW|].
  destruct (m_ents m !! p) as [e|] eqn:He; [|by apply IH].
  destruct (match e_files e with Some fs => elements fs | None => [] end) as [|k ks] eqn:Hk; [|by apply IH].
  destruct p as [|base dir]; [intros H; injection H as <-; exact HW|].
  destruct (m_ents m !! dir) as [pe|] eqn:Hpe.
  - destruct (e_dir pe) eqn:Hpd; [|intros H; injection H as <-; exact HW].
    apply IH.
    assert (Hleaf : files_of e = ∅).
    { unfold files_of. destruct (e_files e) as [fs|]; [|done]. cbn. apply elements_empty_inv in Hk. by apply leibniz_equiv. }
    exact (unlink_leaf_wf m base dir e pe HW He Hleaf Hpe).
  - destruct (wf_par m HW _ _ _ He) as (pe & H1 & _). congruence.
Qed.

Lemma remove_all_wf env m s r : WF m → remove_all_op env m s = Done r → WF r.1.
Proof.
  intros HW. unfold remove_all_op. destruct (resolve env m s) as [p|e]; [|intros H; injection H as <-; exact HW].
  by apply remove_all_loop_wf.
Qed.

(* ---- every operation of the alphabet (move_p: see Memfs/MoveWf.v) ---- *)
From RV Require Import Memfs.Walk Memfs.WalkOps Memfs.Step.

Lemma lift_unit_fst r : (lift_unit r).1 = r.1.
Proof. destruct r as [m [u|e]]; done. Qed.
Lemma lift_path_fst r : (lift_path r).1 = r.1.
Proof. destruct r as [m [u|e]]; done. Qed.

(* operations whose WF-preservation is not yet a theorem here: the move_p worklist loop and the
   traversal-based mutators (copy / chmod / chown / mkfile_m) *)
Definition is_move (o : op) : bool :=
  match o with OMoveP _ _ | OCopy _ _ _ | OChmod _ _ | OChown _ _ | OMkfileM _ _ => true | _ => false end.

Lemma done_fst {A B} (x : A * B) m' r : Done x = Done (m', r) → x.1 = m'.
Proof. intros H. by simplify_eq. Qed.

Theorem wf_step_nonmove env m o m' r : WF m → is_move o = false → step env m o = Done (m', r) → WF m'.
Proof.
  intros HW Hnm Hs. destruct o; cbn [is_move] in Hnm; try discriminate; cbn [step] in Hs;
    try (apply done_fst in Hs; cbn [fst] in Hs; subst m'; exact HW).
  - (* set_cwd *) apply done_fst in Hs. rewrite <- Hs, lift_path_fst. by apply set_cwd_wf.
  - (* mkfile *) apply done_fst in Hs. rewrite <- Hs. destruct (resolve env m s) as [p|e]; [|exact HW].
    rewrite lift_path_fst. apply add_wf; [exact HW | apply fresh_new_file].
  - (* mkdir_p *) apply done_fst in Hs. rewrite <- Hs. destruct (resolve env m s) as [p|e]; [|exact HW].
    pose proof (mkdir_m_abs_wf m p None HW) as H. destruct (mkdir_m_abs m p None) as [m1 [u|e]]; exact H.
  - (* mkdir_m *) apply done_fst in Hs. rewrite <- Hs. destruct (resolve env m s) as [p|e]; [|exact HW].
    pose proof (mkdir_m_abs_wf m p (Some mode) HW) as H. destruct (mkdir_m_abs m p (Some mode)) as [m1 [u|e]]; exact H.
  - (* write_all *) apply done_fst in Hs. rewrite <- Hs, lift_unit_fst. by apply write_all_wf.
  - (* write_lines *) apply done_fst in Hs. rewrite <- Hs. destruct (nl_join ls); [exact HW|].
    rewrite lift_unit_fst. by apply write_all_wf.
  - (* append_all *) apply done_fst in Hs. rewrite <- Hs, lift_unit_fst. by apply append_all_wf.
  - (* append_line *) apply done_fst in Hs. rewrite <- Hs. destruct l; [exact HW|].
    rewrite lift_unit_fst. by apply append_all_wf.
  - (* append_lines *) apply done_fst in Hs. rewrite <- Hs. destruct (nl_join ls); [exact HW|].
    rewrite lift_unit_fst. by apply append_all_wf.
  - (* remove *) apply done_fst in Hs. rewrite <- Hs, lift_unit_fst. by apply remove_wf.
  - (* remove_all *) destruct (remove_all_op env m s) as [r0| |] eqn:E; try discriminate.
    apply done_fst in Hs. rewrite <- Hs, lift_unit_fst. by eapply remove_all_wf.
  - (* symlink *) apply done_fst in Hs. rewrite <- Hs, lift_path_fst. by apply symlink_wf.
  - (* listing *) destruct (listing_op env m k s) as [[ps|e]| |]; try discriminate; apply done_fst in Hs; cbn in Hs; subst; exact HW.
  - (* entries *) destruct (resolve env m s) as [p|e]; [|apply done_fst in Hs; cbn in Hs; subst; exact HW].
    destruct (walk (m_ents m) wo no_pre p) as [[evs| |]|e]; try discriminate; apply done_fst in Hs; cbn in Hs; subst; exact HW.
Qed.

(* reachability: every existing path is reached from the root through listed names *)
Lemma wf_reachable m : WF m → ∀ p e, m_ents m !! p = Some e →
  ∀ k, k ≤ length p → is_Some (m_ents m !! drop k p).
Proof.
  intros HW p. induction p as [|n d IH]; intros e He k Hk.
  - rewrite drop_nil. eauto.
  - destruct k as [|k]; [rewrite drop_0; eauto|]. cbn [drop].
    destruct (wf_par m HW _ _ _ He) as (pe & Hpe & _). eapply IH; [exact Hpe | simpl in Hk; lia].
Qed.

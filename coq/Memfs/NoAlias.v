(* Memfs/NoAlias.v — a copied file does not alias its source (C06): after copy(src, dst) of a regular file to a fresh path,
   writing either of the two leaves the other's bytes as they are. *)
From stdpp Require Import gmap.
From Coq Require Import NArith.
From RV Require Import Base.Str Path.Helpers Path.Expand Memfs.State Memfs.Ops Memfs.Walk Memfs.WalkOps Memfs.Wf Memfs.WfMore
  Memfs.ContentFacts Memfs.CopyFile Memfs.LinkFacts.

Theorem copy_no_alias env m s d o sp dp db ddir r pd bytes m1 :
  WF m → resolve env m s = inl sp → resolve env m d = inl dp → sp ≠ dp →
  m_ents m !! sp = Some r → e_file r = true → e_dir r = false → e_link r = false → m_data m !! sp = Some bytes →
  dp = db :: ddir → m_ents m !! dp = None → m_ents m !! ddir = Some pd → real_dir pd →
  copy_op env m s d o = Done (m1, inl tt) →
  m_data m1 !! sp = Some bytes ∧ m_data m1 !! dp = Some bytes ∧
  (∀ new m2, write_all_op env m1 d new = (m2, inl tt) → m_data m2 !! dp = Some new ∧ m_data m2 !! sp = Some bytes) ∧
  (∀ new m2, write_all_op env m1 s new = (m2, inl tt) → m_data m2 !! sp = Some new ∧ m_data m2 !! dp = Some bytes).
Proof.
  intros HW Hs Hd Hne Hr Hf Hdir Hl Hdat Hdp Hdpn Hpd Hpdr Hcp.
  destruct (copy_file_fresh env m s d o sp dp db ddir r pd bytes HW Hs Hd Hne Hr Hf Hdir Hl Hdat Hdp Hdpn Hpd Hpdr)
    as (m1' & Hcp' & _ & Hd1 & _ & _ & Hdo & Hc1 & _).
  rewrite Hcp in Hcp'. injection Hcp' as <-.
  pose proof (copy_op_wf env m s d o _ HW Hcp) as HW1. cbn [fst] in HW1.
  assert (Hsrc : m_data m1 !! sp = Some bytes) by (rewrite Hdo; done).
  split; [done|]. split; [done|]. split.
  - intros new m2 Hw. destruct (write_replaces env m1 d new m2 dp HW1 ltac:(by rewrite (resolve_same_cwd env m m1 d Hc1)) Hw) as [H1 H2].
    split; [done|]. rewrite H2; done.
  - intros new m2 Hw. destruct (write_replaces env m1 s new m2 sp HW1 ltac:(by rewrite (resolve_same_cwd env m m1 s Hc1)) Hw) as [H1 H2].
    split; [done|]. rewrite H2; [done|]. congruence.
Qed.

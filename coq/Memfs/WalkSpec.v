(* Memfs/WalkSpec.v — what a traversal denotes (C08), as a plain recursion over the snapshot, and the proof that the
   iterator state machine of Memfs/Walk.v (iterator stack, deferred stack, descriptor counter, one `next` call per item)
   produces exactly that event sequence, for every snapshot, option record, pre_op and starting entry - links followed or
   not.  The recursion is on an explicit depth bound h (following links the descent need not be bounded by the height of
   the tree); Memfs/WalkTerm.v shows the bound is met, and the machine's fuel suffices, whenever links are not followed. *)
From stdpp Require Import gmap.
From Coq Require Import NArith.
From RV Require Import Base.Str Path.Helpers Memfs.State Memfs.Walk Memfs.WalkFacts.

(* per-directory ordering: sort_by_name / dirs_first / files_first *)
Definition arrange (o : wopts) (cs : list entry) : list entry :=
  if o_sort o then
    (if o_dirs_first o then sort_ents (filter (fun c => e_dir c) cs) ++ sort_ents (filter (fun c => negb (e_dir c)) cs)
     else if o_files_first o then sort_ents (filter (fun c => negb (e_dir c)) cs) ++ sort_ents (filter (fun c => e_dir c) cs)
     else sort_ents cs)
  else cs.

(* is e, met with `stack` directories open above it, descended into / reported? *)
Definition enters (o : wopts) (e : entry) : bool := e_dir e && (negb (e_link e) || o_follow o).
Definition loops (o : wopts) (stack : list rpath) (e : entry) : bool :=
  enters o e && e_link e && existsb (fun p => bool_decide (p = e_path e)) stack.
Definition selected (o : wopts) (depth : nat) (e : entry) : bool := negb (depth <? o_min o) && passes o e.

Fixpoint concat_opt {A} (l : list (option (list A))) : option (list A) :=
  match l with
  | [] => Some []
  | x :: l' => match x, concat_opt l' with Some a, Some b => Some (a ++ b) | _, _ => None end
  end.

(* the events of visiting e: pre_op calls and yielded items, in order *)
Fixpoint sw (h : nat) (sn : snap) (o : wopts) (pre : entry -> option errkind) (stack : list rpath) (e : entry)
  : option (list event) :=
  match h with
  | O => None
  | S h' =>
      let depth := length stack in
      if loops o stack e then Some [EvItem (IErr (WLoop (e_path e)))] else
      if enters o e && lt_max depth (o_max o) then
        match pre e with
        | Some err => Some [EvItem (IErr (WPre err))]
        | None =>
            match children sn (o_follow o) (e_path e) with
            | None => Some [EvPre e; EvItem (IErr (WNoEnt (e_path e)))]
            | Some cs =>
                match concat_opt (map (sw h' sn o pre (e_path e :: stack)) (arrange o cs)) with
                | None => None
                | Some kids =>
                    Some (if selected o depth e then
                            (if e_dir e && o_contents_first o then EvPre e :: kids ++ [EvItem (IOk e)]
                             else EvPre e :: EvItem (IOk e) :: kids)
                          else EvPre e :: kids)
                end
            end
        end
      else Some (if selected o depth e then [EvItem (IOk e)] else [])
  end.

(* machine steps the visit takes beyond the one that picked e up *)
Fixpoint steps (h : nat) (sn : snap) (o : wopts) (pre : entry -> option errkind) (stack : list rpath) (e : entry) : nat :=
  match h with
  | O => 0
  | S h' =>
      let depth := length stack in
      let late := if selected o depth e && e_dir e && o_contents_first o then 1 else 0 in
      if loops o stack e then 0 else
      if enters o e && lt_max depth (o_max o) then
        match pre e with
        | Some err => 0
        | None =>
            match children sn (o_follow o) (e_path e) with
            | None => 0
            | Some cs => list_sum (map (fun c => S (steps h' sn o pre (e_path e :: stack) c)) (arrange o cs)) + 1 + late
            end
        end
      else late
  end.

(* the whole traversal from `root` *)
Definition sw_walk (h : nat) (sn : snap) (o : wopts) (pre : entry -> option errkind) (root : entry) : option (list event) :=
  sw h sn o pre [] (if o_follow o then follow_e root else root).

(* ---- the machine as one loop emitting events ---- *)
Definition ready (o : wopts) (st : wstate) : bool :=
  o_contents_first o && (match s_deferred st with (_, dep) :: _ => length (s_iters st) <=? dep | [] => false end).

Definition prepend (evs : list event) (r : outcome (list event)) : outcome (list event) :=
  match r with Done x => Done (evs ++ x) | Panic => Panic | OutOfFuel => OutOfFuel end.

Definition ev_item (it : option item) : list event := match it with Some i => [EvItem i] | None => [] end.

Fixpoint drain (fuel : nat) (sn : snap) (o : wopts) (pre : entry -> option errkind) (st : wstate) : outcome (list event) :=
  match fuel with
  | O => OutOfFuel
  | S f =>
    if ready o st then
      match s_deferred st with
      | (d, _) :: ds => prepend [EvItem (IOk d)] (drain f sn o pre (mkWstate (s_started st) (s_open st) (s_iters st) ds))
      | [] => Done []
      end
    else
    match s_iters st with
    | [] => Done []
    | top :: rest =>
        match f_items top with
        | e :: es =>
            let st0 := mkWstate (s_started st) (s_open st) (mkFrame (f_path top) (f_cached top) es :: rest) (s_deferred st) in
            match process sn o pre st0 e with
            | (st1, it, pres) => prepend (map EvPre pres ++ ev_item it) (drain f sn o pre st1)
            end
        | [] =>
            if negb (f_cached top) && (s_open st =? 0)%N then Panic else
            drain f sn o pre (mkWstate (s_started st) (if f_cached top then s_open st else (s_open st - 1)%N) rest (s_deferred st))
        end
    end
  end.

Lemma prepend_app a b r : prepend a (prepend b r) = prepend (a ++ b) r.
Proof. destruct r; cbn; [by rewrite app_assoc|done|done]. Qed.
Lemma prepend_nil r : prepend [] r = r.
Proof. by destruct r. Qed.

Lemma process_started sn o pre st e st' it pres : process sn o pre st e = (st', it, pres) → s_started st' = s_started st.
Proof.
  unfold process. destruct (_ && _ && existsb _ _); [intros ?; by simplify_eq|].
  destruct (_ && lt_max _ _).
  - destruct (pre e); [intros ?; by simplify_eq|].
    destruct (children sn (o_follow o) (e_path e)) as [cs|]; [|intros ?; by simplify_eq].
    destruct (o_sort o || _)%N; repeat case_match; intros ?; by simplify_eq.
  - repeat case_match; intros ?; by simplify_eq.
Qed.

Lemma items_of_app a b : items_of (a ++ b) = items_of a ++ items_of b.
Proof. unfold items_of. by rewrite flat_map_app. Qed.
Lemma items_of_item i evs : items_of (EvItem i :: evs) = i :: items_of evs.
Proof. done. Qed.
Lemma items_of_pres ps : items_of (map EvPre ps) = [].
Proof. induction ps; [done|]. done. Qed.

(* one `next` call consumes the drain up to and including its next item *)
Lemma next_loop_drain F : ∀ sn o pre st evs, drain F sn o pre st = Done evs → ∀ fuel, F ≤ fuel →
  (∃ st' it pres evs' F', next_loop fuel sn o pre st = Done (st', Some it, pres) ∧ evs = map EvPre pres ++ EvItem it :: evs' ∧
      drain F' sn o pre st' = Done evs' ∧ F' < F ∧ s_started st' = s_started st)
  ∨ (∃ st' pres, next_loop fuel sn o pre st = Done (st', None, pres) ∧ evs = map EvPre pres).
Proof.
  induction F as [|F IH]; intros sn o pre st evs Hd fuel Hf; cbn [drain] in Hd; [done|].
  destruct fuel as [|fuel]; [lia|]. cbn [next_loop]. fold (ready o st).
  destruct (ready o st) eqn:Er.
  - destruct (s_deferred st) as [|[d dep] ds] eqn:Ed.
    + right. exists st, []. by simplify_eq.
    + left. destruct (drain F sn o pre _) as [evs'| |] eqn:E'; cbn in Hd; try done. simplify_eq.
      eexists _, _, [], evs', F. split; [done|]. split; [done|]. split; [exact E'|]. split; [lia|done].
  - destruct (s_iters st) as [|top rest] eqn:Ei.
    + right. exists st, []. by simplify_eq.
    + destruct (f_items top) as [|e es] eqn:Ef.
      * destruct (negb (f_cached top) && (s_open st =? 0)%N); [done|].
        destruct (IH _ _ _ _ _ Hd fuel ltac:(lia)) as [(st' & it & pres & evs' & F' & Hn & -> & Hd' & HF & Hs)|(st' & pres & Hn & ->)].
        -- left. exists st', it, pres, evs', F'. split; [done|]. split; [done|]. split; [done|]. split; [lia|done].
        -- right. by exists st', pres.
      * destruct (process sn o pre _ e) as [[st1 it] pres] eqn:Ep.
        pose proof (process_started _ _ _ _ _ _ _ _ Ep) as Hst. cbn [s_started] in Hst.
        destruct (drain F sn o pre st1) as [evs1| |] eqn:E1; cbn in Hd; try done. simplify_eq.
        destruct it as [it|]; cbn [ev_item].
        -- left. exists st1, it, pres, evs1, F. split; [done|]. split; [by rewrite <- app_assoc|]. split; [done|]. split; [lia|done].
        -- rewrite app_nil_r.
           destruct (IH _ _ _ _ _ E1 fuel ltac:(lia)) as [(st' & it & pres' & evs' & F' & Hn & -> & Hd' & HF & Hs)|(st' & pres' & Hn & ->)].
           ++ left. rewrite Hn. exists st', it, (pres ++ pres'), evs', F'. split; [done|]. split; [by rewrite map_app, <- app_assoc|].
              split; [done|]. split; [lia|congruence].
           ++ right. rewrite Hn. exists st', (pres ++ pres'). split; [done|]. by rewrite map_app.
Qed.

Lemma collect_drain n : ∀ F sn o pre root st evs fuel, drain F sn o pre st = Done evs → s_started st = true →
  length (items_of evs) < n → F ≤ fuel → collect n fuel sn o pre root st = Done evs.
Proof.
  induction n as [|n IH]; intros F sn o pre root st evs fuel Hd Hs Hn Hf; [lia|].
  cbn [collect]. unfold next. rewrite Hs.
  destruct (next_loop_drain F _ _ _ _ _ Hd fuel Hf) as [(st' & it & pres & evs' & F' & -> & -> & Hd' & HF & Hs')|(st' & pres & -> & ->)]; [|done].
  rewrite (IH F' sn o pre root st' evs' fuel Hd' ltac:(congruence)); [done| |lia].
  rewrite items_of_app, items_of_pres, items_of_item in Hn. cbn [app length] in Hn. lia.
Qed.

(* the first `next` call, which processes the starting entry *)
Lemma collect_first n F sn o pre root evs fuel st1 it pres :
  process sn o pre (mkWstate true 0 [] []) (if o_follow o then follow_e root else root) = (st1, it, pres) →
  drain F sn o pre st1 = Done evs → length (items_of evs) + 1 < n → F ≤ fuel →
  collect n fuel sn o pre root (mkWstate false 0 [] []) = Done (map EvPre pres ++ ev_item it ++ evs).
Proof.
  intros Hp Hd Hn Hf. destruct n as [|n]; [lia|]. cbn [collect]. unfold next. cbn [s_started s_open s_iters s_deferred]. rewrite Hp.
  pose proof (process_started _ _ _ _ _ _ _ _ Hp) as Hst. cbn [s_started] in Hst.
  destruct it as [it|]; cbn [ev_item].
  - rewrite (collect_drain n F sn o pre root st1 evs fuel Hd Hst ltac:(lia) Hf). done.
  - destruct (next_loop_drain F _ _ _ _ _ Hd fuel Hf) as [(st' & it & pres' & evs' & F' & -> & -> & Hd' & HF & Hs')|(st' & pres' & -> & ->)].
    + rewrite (collect_drain n F' sn o pre root st' evs' fuel Hd' ltac:(congruence)); [|rewrite items_of_app, items_of_pres, items_of_item in Hn; cbn [app length] in Hn; lia|lia].
      cbn. by rewrite map_app, <- app_assoc.
    + cbn. by rewrite map_app.
Qed.

(* ---- the machine follows the recursion ---- *)
Definition deferred_lt (st : wstate) : Prop := Forall (fun x : entry * nat => x.2 < length (s_iters st)) (s_deferred st).

Lemma not_ready o st : deferred_lt st → ready o st = false.
Proof.
  unfold deferred_lt, ready. destruct (s_deferred st) as [|[d dep] ds]; [by rewrite andb_false_r|].
  intros H. apply Forall_cons in H as [H _]. cbn in H. apply andb_false_iff. right. apply Nat.leb_gt. lia.
Qed.

Lemma existsb_map {A B} (f : A → B) (g : B → bool) l : existsb g (map f l) = existsb (fun x => g (f x)) l.
Proof. induction l as [|x l IH]; [done|]. cbn. by rewrite IH. Qed.

Definition finish (o : wopts) (depth : nat) (e : entry) (st1 : wstate) (pres : list entry) : wstate * option item * list entry :=
  if selected o depth e then
    (if e_dir e && o_contents_first o
     then (mkWstate (s_started st1) (s_open st1) (s_iters st1) ((e, depth) :: s_deferred st1), None, pres)
     else (st1, Some (IOk e), pres))
  else (st1, None, pres).

Definition push_frame (o : wopts) (st : wstate) (e : entry) (cs : list entry) : wstate :=
  let cached := o_sort o || (o_maxdesc o <? s_open st + 1)%N in
  mkWstate (s_started st) (if cached then s_open st else (s_open st + 1)%N)
           (mkFrame (e_path e) cached (arrange o cs) :: s_iters st) (s_deferred st).

Lemma process_eq sn o pre st e :
  process sn o pre st e =
    let stack := map f_path (s_iters st) in
    let depth := length (s_iters st) in
    if loops o stack e then (st, Some (IErr (WLoop (e_path e))), []) else
    if enters o e && lt_max depth (o_max o) then
      match pre e with
      | Some err => (st, Some (IErr (WPre err)), [])
      | None => match children sn (o_follow o) (e_path e) with
                | None => (st, Some (IErr (WNoEnt (e_path e))), [e])
                | Some cs => finish o depth e (push_frame o st e cs) [e]
                end
      end
    else finish o depth e st [].
Proof.
  unfold process, loops, enters, finish, push_frame, selected, arrange. cbn zeta. rewrite existsb_map.
  destruct (e_dir e && (negb (e_link e) || o_follow o) && e_link e && existsb _ _); [done|].
  destruct (e_dir e && (negb (e_link e) || o_follow o) && lt_max _ _).
  - destruct (pre e); [done|]. destruct (children sn (o_follow o) (e_path e)) as [cs|]; [|done].
    destruct (o_sort o) eqn:Eso; cbn [orb].
    + destruct (length (s_iters st) <? o_min o); cbn [negb andb]; [done|]. destruct (passes o e); cbn [negb]; [|done].
      destruct (e_dir e && o_contents_first o); done.
    + destruct (o_maxdesc o <? s_open st + 1)%N;
      (destruct (length (s_iters st) <? o_min o); cbn [negb andb]; [done|]; destruct (passes o e); cbn [negb]; [|done];
       destruct (e_dir e && o_contents_first o); done).
  - destruct (length (s_iters st) <? o_min o); cbn [negb andb]; [done|]. destruct (passes o e); cbn [negb]; [|done].
    destruct (e_dir e && o_contents_first o); done.
Qed.

Lemma list_sum_cons x l : list_sum (x :: l) = x + list_sum l.
Proof. done. Qed.

Definition with_items (b : bool) (op : N) (p : rpath) (c : bool) (rest : list frame) (dfr : list (entry * nat)) (es : list entry) : wstate :=
  mkWstate b op (mkFrame p c es :: rest) dfr.

Definition entry_stmt (h : nat) : Prop := ∀ sn o pre st0 e evs,
  sw h sn o pre (map f_path (s_iters st0)) e = Some evs → deferred_lt st0 →
  ∀ st1 it pres, process sn o pre st0 e = (st1, it, pres) →
  ∀ G, prepend (map EvPre pres ++ ev_item it) (drain (steps h sn o pre (map f_path (s_iters st0)) e + G) sn o pre st1)
       = prepend evs (drain G sn o pre st0).

Lemma frame_spec h (IH : entry_stmt h) sn o pre b op p c rest dfr : ∀ es evs,
  concat_opt (map (sw h sn o pre (p :: map f_path rest)) es) = Some evs →
  deferred_lt (with_items b op p c rest dfr es) →
  ∀ G, drain (list_sum (map (fun x => S (steps h sn o pre (p :: map f_path rest) x)) es) + G) sn o pre (with_items b op p c rest dfr es)
       = prepend evs (drain G sn o pre (with_items b op p c rest dfr [])).
Proof.
  induction es as [|e es IHes]; intros evs Hc Hd G.
  - cbn in Hc. simplify_eq. cbn [map list_sum]. by rewrite prepend_nil.
  - cbn [map concat_opt] in Hc. destruct (sw h sn o pre _ e) as [evs_e|] eqn:Ee; [|done].
    destruct (concat_opt _) as [evs'|] eqn:Ec; [|done]. simplify_eq.
    cbn [map]. rewrite list_sum_cons, <- Nat.add_assoc. cbn [Nat.add drain]. rewrite (not_ready o _ Hd).
    cbn [with_items s_iters f_items s_started s_open s_deferred f_path f_cached].
    fold (with_items b op p c rest dfr es).
    destruct (process sn o pre (with_items b op p c rest dfr es) e) as [[st1 it] pres] eqn:Ep.
    assert (Hd' : deferred_lt (with_items b op p c rest dfr es)) by exact Hd.
    rewrite (IH sn o pre (with_items b op p c rest dfr es) e evs_e Ee Hd' st1 it pres Ep).
    rewrite (IHes evs' eq_refl Hd' G). by rewrite prepend_app.
Qed.

Lemma entry_spec h : entry_stmt h.
Proof.
  induction h as [|h IH]; intros sn o pre st0 e evs Hsw Hd st1 it pres Hp G; [done|].
  rewrite process_eq in Hp. cbn zeta in Hp. cbn [sw steps] in *. rewrite map_length in *.
  set (stack := map f_path (s_iters st0)) in *. set (depth := length (s_iters st0)) in *.
  destruct (loops o stack e); [by simplify_eq|].
  destruct (enters o e && lt_max depth (o_max o)).
  - destruct (pre e) as [err|]; [by simplify_eq|].
    destruct (children sn (o_follow o) (e_path e)) as [cs|]; [|by simplify_eq].
    destruct (concat_opt _) as [kids|] eqn:Ek; [|done].
    (* the frame for e is pushed; its items are consumed, then it is popped *)
    set (cached := o_sort o || (o_maxdesc o <? s_open st0 + 1)%N) in *.
    set (op' := if cached then s_open st0 else (s_open st0 + 1)%N).
    set (Σ := list_sum _) in *.
    assert (Hpop : ∀ dfr G', deferred_lt (mkWstate (s_started st0) op' (mkFrame (e_path e) cached (arrange o cs) :: s_iters st0) dfr) →
              drain (Σ + S G') sn o pre (mkWstate (s_started st0) op' (mkFrame (e_path e) cached (arrange o cs) :: s_iters st0) dfr)
              = prepend kids (drain G' sn o pre (mkWstate (s_started st0) (s_open st0) (s_iters st0) dfr))).
    { intros dfr G' Hd'.
      pose proof (frame_spec h IH sn o pre (s_started st0) op' (e_path e) cached (s_iters st0) dfr (arrange o cs) kids Ek Hd' (S G')) as Hfr.
      unfold with_items in Hfr. unfold Σ, stack. rewrite Hfr. f_equal. cbn [drain].
      rewrite not_ready by (unfold deferred_lt in *; exact Hd').
      cbn [s_iters f_items f_cached s_open s_started s_deferred].
      subst op'. destruct cached; cbn [negb andb]; [done|].
      destruct (s_open st0 + 1 =? 0)%N eqn:E0; [apply N.eqb_eq in E0; lia|]. cbn [andb]. by rewrite N.add_sub. }
    unfold finish, push_frame in Hp. fold cached in Hp. fold op' in Hp. cbn [s_started s_open s_iters s_deferred] in Hp.
    destruct (selected o depth e) eqn:Esel; cbn [andb] in *.
    + destruct (e_dir e && o_contents_first o) eqn:Ecf.
      * (* deferred: yielded after the frame is popped *)
        simplify_eq. cbn [ev_item map]. rewrite app_nil_r.
        replace (Σ + 1 + 1 + G) with (Σ + S (S G)) by lia.
        rewrite Hpop.
        2:{ unfold deferred_lt in *. cbn [s_deferred s_iters length]. apply Forall_cons. split; [cbn; lia|].
            eapply Forall_impl; [exact Hd|]. cbn. intros; lia. }
        cbn [drain]. unfold ready at 1. cbn [s_deferred s_iters].
        apply andb_true_iff in Ecf as [_ ->]. fold depth. rewrite Nat.leb_refl. cbn [andb s_started s_open].
        rewrite !prepend_app. destruct st0; cbn. done.
      * simplify_eq. cbn [ev_item map]. replace (Σ + 1 + 0 + G) with (Σ + S G) by lia.
        rewrite Hpop.
        2:{ unfold deferred_lt in *. cbn [s_deferred s_iters length]. eapply Forall_impl; [exact Hd|]. cbn. intros; lia. }
        rewrite prepend_app. destruct st0; cbn. done.
    + simplify_eq. cbn [ev_item map]. rewrite app_nil_r. replace (Σ + 1 + 0 + G) with (Σ + S G) by lia.
      rewrite Hpop.
      2:{ unfold deferred_lt in *. cbn [s_deferred s_iters length]. eapply Forall_impl; [exact Hd|]. cbn. intros; lia. }
      rewrite prepend_app. destruct st0; cbn. done.
  - unfold finish in Hp. destruct (selected o depth e) eqn:Esel; cbn [andb] in *.
    + destruct (e_dir e && o_contents_first o) eqn:Ecf.
      * simplify_eq. cbn [ev_item map app Nat.add drain]. unfold ready at 1. cbn [s_deferred s_iters].
        apply andb_true_iff in Ecf as [_ ->]. fold depth. rewrite Nat.leb_refl. cbn [andb s_started s_open].
        destruct st0; cbn. by rewrite prepend_nil.
      * simplify_eq. done.
    + simplify_eq. done.
Qed.

(* the whole traversal: whenever the recursion is defined and the machine's fuel covers its steps, `walk` returns exactly
   the recursion's events *)
Theorem walk_is_spec sn o pre rootp r h evs :
  sn !! rootp = Some r → sw_walk h sn o pre r = Some evs →
  steps h sn o pre [] (if o_follow o then follow_e r else r) + 1 ≤ walk_fuel sn →
  length (items_of evs) + 1 < walk_fuel sn →
  walk sn o pre rootp = inl (Done evs).
Proof.
  intros Hr Hsw Hst Hit. unfold walk. rewrite Hr. f_equal. unfold sw_walk in Hsw.
  set (r' := if o_follow o then follow_e r else r) in *.
  destruct (process sn o pre (mkWstate true 0 [] []) r') as [[st1 it] pres] eqn:Ep.
  assert (Hd0 : deferred_lt (mkWstate true 0 [] [])) by constructor.
  pose proof (entry_spec h sn o pre (mkWstate true 0 [] []) r' evs Hsw Hd0 st1 it pres Ep 1) as He.
  cbn [s_iters map] in He. cbn [drain] in He. unfold ready in He. cbn [s_deferred s_iters] in He. rewrite andb_false_r in He. cbn [prepend] in He.
  rewrite app_nil_r in He.
  destruct (drain (steps h sn o pre [] r' + 1) sn o pre st1) as [evs1| |] eqn:Ed; cbn [prepend] in He; try done.
  injection He as He. rewrite <- He, <- app_assoc.
  apply (collect_first _ (steps h sn o pre [] r' + 1) sn o pre r evs1 _ st1 it pres Ep Ed); [|done].
  rewrite <- He in Hit. rewrite !items_of_app in Hit. rewrite !app_length in Hit. lia.
Qed.

(* Memfs/CwdInv.v — the working directory only ever changes through set_cwd, and then to a resolved path: in every state a
   history reaches it consists of proper names.  (It need not exist any more: it can be removed or replaced.) *)
From stdpp Require Import gmap.
From Coq Require Import NArith.
From RV Require Import Base.Str Base.PathLex Path.Helpers Path.Expand Memfs.State Memfs.Ops Memfs.Walk Memfs.WalkOps Memfs.Step Memfs.Wf Memfs.WfMore
  Memfs.CopyFile Memfs.Names.

Ltac cwd_tac := repeat case_match; cbn [fst m_cwd upd_ents upd_data]; try done.

Lemma add_cwd m e : m_cwd (add m e).1 = m_cwd m.
Proof. unfold add. cwd_tac. Qed.

Lemma mkdir_loop_cwd ps mode : ∀ m, m_cwd (mkdir_loop m ps mode).1 = m_cwd m.
Proof.
  induction ps as [|p ps IH]; intros m; cbn [mkdir_loop]; [done|].
  pose proof (add_cwd m (new_dir p mode)) as H. destruct (add m (new_dir p mode)) as [m' [x|e]]; cbn [fst] in *; [by rewrite IH|done].
Qed.

Lemma mkdir_m_abs_cwd m p mode : m_cwd (mkdir_m_abs m p mode).1 = m_cwd m.
Proof.
  unfold mkdir_m_abs. pose proof (add_cwd m (new_dir [] mode)) as H. destruct (add m (new_dir [] mode)) as [m' [x|e]]; cbn [fst] in *; [|done].
  by rewrite mkdir_loop_cwd.
Qed.

Lemma write_all_cwd env m s d : m_cwd (write_all_op env m s d).1 = m_cwd m.
Proof.
  unfold write_all_op. destruct (resolve env m s) as [p|e]; [|done].
  pose proof (add_cwd m (new_file p)) as H. destruct (add m (new_file p)) as [m' [x|e]]; cbn [fst] in *; [|done]. cwd_tac.
Qed.

Lemma append_all_cwd env m s d : m_cwd (append_all_op env m s d).1 = m_cwd m.
Proof.
  unfold append_all_op. destruct (resolve env m s) as [p|e]; [|done].
  pose proof (add_cwd m (new_file p)) as H. destruct (add m (new_file p)) as [m' [x|e]]; cbn [fst] in *; [|done]. cwd_tac.
Qed.

Lemma remove_cwd env m s : m_cwd (remove_op env m s).1 = m_cwd m.
Proof.
  unfold remove_op. destruct (resolve env m s) as [p|e]; [|done].
  destruct (negb _); [done|]. destruct (match m_ents m !! p with Some e => _ | None => false end); [done|].
  destruct p as [|base dir]; [done|].
  destruct (m_ents m !! dir) as [pe|] eqn:Hpe.
  - destruct (e_dir pe); [|done]. cwd_tac.
  - cwd_tac.
Qed.

Lemma remove_all_loop_cwd fuel : ∀ m paths r, remove_all_loop fuel m paths = Done r → m_cwd r.1 = m_cwd m.
Proof.
  induction fuel as [|f IH]; intros m paths r; cbn [remove_all_loop]; [discriminate|].
  destruct paths as [|p rest]; [intros H; by simplify_eq|].
  destruct (m_ents m !! p) as [e|] eqn:He; [|by apply IH].
  destruct (match e_files e with Some fs => elements fs | None => [] end) as [|k ks] eqn:Hk; [|by apply IH].
  destruct p as [|base dir]; [intros H; by simplify_eq|].
  destruct (m_ents m !! dir) as [pe|] eqn:Hpe.
  - destruct (e_dir pe); [|intros H; by simplify_eq]. intros H. by rewrite (IH _ _ _ H).
  - intros H. by rewrite (IH _ _ _ H).
Qed.

Lemma symlink_cwd env m l t : m_cwd (symlink_op env m l t).1 = m_cwd m.
Proof.
  unfold symlink_op. destruct (resolve env m l) as [lp|e]; [|done]. destruct (if is_absolute t then _ else _) as [t'|e]; [|done].
  destruct (resolve env m t') as [tp|e]; [|done]. case_bool_decide; [done|]. destruct lp; [done|]. apply add_cwd.
Qed.

Lemma set_mode_at_cwd m p md : m_cwd (set_mode_at m p md) = m_cwd m.
Proof. unfold set_mode_at. cwd_tac. Qed.

Lemma chmod_events_cwd o evs : ∀ m, m_cwd (chmod_events o m evs).1 = m_cwd m.
Proof.
  induction evs as [|ev evs IH]; intros m; cbn [chmod_events]; [done|].
  destruct ev as [x|[src|w]]; [| |done].
  - rewrite IH. unfold chmod_pre_apply. repeat case_match; try done; by rewrite set_mode_at_cwd.
  - assert (H : m_cwd (chmod_item_apply o m src).1 = m_cwd m) by (unfold chmod_item_apply; repeat case_match; cbn [fst]; try done; by rewrite set_mode_at_cwd).
    destruct (chmod_item_apply o m src) as [m' [e|]]; cbn [fst] in *; [done | by rewrite IH].
Qed.

Lemma chmod_op_cwd env m s o r : chmod_op env m s o = Done r → m_cwd r.1 = m_cwd m.
Proof.
  unfold chmod_op. destruct (resolve env m s) as [p|e]; [|intros H; by simplify_eq].
  destruct (walk _ _ _ p) as [[evs| |]|e]; intros H; simplify_eq; cbn [fst]; try done. by apply chmod_events_cwd.
Qed.

Lemma chown_op_cwd env m s o r : chown_op env m s o = Done r → m_cwd r.1 = m_cwd m.
Proof.
  unfold chown_op. destruct (resolve env m s) as [p|e]; [|intros H; by simplify_eq].
  destruct (walk _ _ _ p) as [[evs| |]|e]; try (intros H; simplify_eq; cbn [fst]; done); try discriminate.
  destruct (oks_until_err (items_of evs)) as [es err]. intros H. simplify_eq. cbn [fst].
  revert m. induction es as [|e es IH]; intros m; cbn [fold_left]; [done|]. rewrite IH. cwd_tac.
Qed.

Lemma copy_one_cwd env o dm fm m dst src : m_cwd (copy_one env o dm fm m dst src).1 = m_cwd m.
Proof.
  unfold copy_one. destruct (negb (cp_follow o) && e_link src).
  - pose proof (symlink_cwd env m (render_rpath dst) (match e_alt src with Some a => render_rpath a | None => [] end)) as H.
    destruct (symlink_op env m _ _) as [m' [p|e]]; exact H.
  - destruct (clone_entry m (e_path src)) as [s|e]; [|done].
    destruct (e_dir s); [by apply mkdir_m_abs_cwd|].
    destruct dst as [|db ddir]; [done|].
    assert (Hrest : ∀ m1, m_cwd (copy_file_rest fm (db :: ddir) s m1).1 = m_cwd m1).
    { intros m1. unfold copy_file_rest.
      pose proof (add_cwd m1 (set_mode (set_path s (db :: ddir)) (orelse fm (Some (e_mode s))))) as Ha.
      destruct (add m1 _) as [m2a [p|e]]; cbn [fst] in *; [|done].
      assert (m_cwd (match fm with Some md => set_mode_at m2a (db :: ddir) md | None => m2a end) = m_cwd m1) by (destruct fm; [by rewrite set_mode_at_cwd | done]).
      repeat case_match; cbn [fst m_cwd upd_data]; done. }
    destruct (m_ents m !! ddir); [exact (Hrest m)|].
    destruct (match dm with Some x => _ | None => _ end) as [md|e]; [|done].
    pose proof (mkdir_m_abs_cwd m ddir md) as H. destruct (mkdir_m_abs m ddir md) as [m1 [u|e]]; cbn [fst] in *; [exact (eq_trans (Hrest m1) H) | done].
Qed.

Lemma copy_loop_cwd env o dm fm ci dr sr is : ∀ m, m_cwd (copy_loop env o dm fm ci dr sr m is).1 = m_cwd m.
Proof.
  induction is as [|it is IH]; intros m; cbn [copy_loop]; [done|].
  destruct it as [src|w]; [|done]. destruct (if ci then _ else _) as [prefix|e]; [|done].
  case_bool_decide; [by apply IH|].
  pose proof (copy_one_cwd env o dm fm m (copy_dst dr (e_path src) prefix) src) as Hc.
  destruct (copy_one env o dm fm m _ src) as [m' [u|e]]; cbn [fst] in *; [by rewrite IH | done].
Qed.

Lemma copy_op_cwd env m s d o r : copy_op env m s d o = Done r → m_cwd r.1 = m_cwd m.
Proof.
  unfold copy_op. destruct (resolve env m s) as [sp|e]; [|intros H; by simplify_eq].
  destruct (resolve env m d) as [dp|e]; [|intros H; by simplify_eq].
  case_bool_decide; [intros Hq; by simplify_eq|].
  destruct (clone_entry m sp) as [re|e]; [|intros Hq; by simplify_eq].
  destruct (walk _ _ _ _) as [[evs| |]|e]; intros Hq; simplify_eq; cbn [fst]; try done. by apply copy_loop_cwd.
Qed.

Lemma move_loop_cwd fuel : ∀ m sr dt paths r, move_loop fuel m sr dt paths = Done r → m_cwd r.1 = m_cwd m.
Proof.
  induction fuel as [|f IH]; intros m sr dt paths r; cbn [move_loop]; [discriminate|].
  destruct paths as [|sp rest]; [intros H; by simplify_eq|].
  destruct (m_ents m !! sp) as [se|]; [|intros H; by simplify_eq]. cbn zeta.
  repeat case_match; intros Hml; simplify_eq; cbn [fst m_cwd upd_ents upd_data]; try done;
    by rewrite (IH _ _ _ _ _ Hml).
Qed.

Lemma move_op_cwd env m s d r : move_op env m s d = Done r → m_cwd r.1 = m_cwd m.
Proof.
  unfold move_op. destruct (move_validate env m s d); [intros H; by simplify_eq|intros H; by simplify_eq|].
  intros H. rewrite (move_loop_cwd _ _ _ _ _ _ H). cwd_tac.
Qed.

(* ---- the targets links remember consist of proper names too (set_cwd on a link to a directory moves there) ---- *)
Definition alt_ok (e : entry) : Prop := ∀ a, e_alt e = Some a → names_ok a.
Definition alts_ok (m : mfs) : Prop := ∀ p x, m_ents m !! p = Some x → alt_ok x.

Lemma alts_insert m p e : alts_ok m → alt_ok e → alts_ok (upd_ents m (insert p e)).
Proof. intros HA He q x Hq. cbn in Hq. destruct (decide (q = p)) as [->|Hn]; [rewrite lookup_insert in Hq; by simplify_eq|]. rewrite lookup_insert_ne in Hq by done. by eapply HA. Qed.
Lemma alts_delete m p : alts_ok m → alts_ok (upd_ents m (delete p)).
Proof. intros HA q x Hq. cbn in Hq. apply lookup_delete_Some in Hq as [_ Hq]. by eapply HA. Qed.
Lemma alts_data m f : alts_ok m → alts_ok (upd_data m f).
Proof. intros HA q x Hq. by eapply HA. Qed.
Lemma alts_insert_delete m p q e : alts_ok m → alt_ok e → alts_ok (upd_ents m (fun es => insert p e (delete q es))).
Proof.
  intros HA He k x Hk. cbn in Hk. destruct (decide (k = p)) as [->|Hn]; [rewrite lookup_insert in Hk; by simplify_eq|].
  rewrite lookup_insert_ne in Hk by done. apply lookup_delete_Some in Hk as [_ Hk]. by eapply HA.
Qed.

Lemma alt_ok_same e e' : e_alt e' = e_alt e → alt_ok e → alt_ok e'.
Proof. unfold alt_ok. by intros ->. Qed.
Lemma alt_ok_none e : e_alt e = None → alt_ok e.
Proof. intros H a Ha. congruence. Qed.
Lemma entry_add_alt e n : e_alt (entry_add e n).1 = e_alt e.
Proof. unfold entry_add. by destruct (e_files e). Qed.
Lemma entry_remove_alt e n : e_alt (entry_remove e n) = e_alt e.
Proof. unfold entry_remove. by destruct (e_files e). Qed.

Lemma add_alts m e : alts_ok m → alt_ok e → alts_ok (add m e).1.
Proof.
  intros HA He. unfold add. destruct (e_path e) as [|base dir] eqn:Hp; [by destruct (e_file e)|].
  destruct (m_ents m !! dir) as [pe|] eqn:Hpe; [|done].
  destruct (negb (e_dir pe) || e_link pe); [done|].
  destruct (m_ents m !! (base :: dir)) as [x|] eqn:Hx; [repeat case_match; done|].
  set (m1 := if negb (e_link e) && e_file e then _ else m).
  assert (HA1 : alts_ok m1) by (unfold m1; destruct (_ && _); [by apply alts_data | done]).
  pose proof (alts_insert m1 (base :: dir) e HA1 He) as HA2.
  destruct (m_ents (upd_ents m1 (insert (base :: dir) e)) !! dir) as [parent|] eqn:Hp2; [|exact HA2].
  pose proof (entry_add_alt parent base) as Hal. destruct (entry_add parent base) as [pe' fr] eqn:Ea. cbn [fst] in Hal.
  assert (alts_ok (upd_ents (upd_ents m1 (insert (base :: dir) e)) (insert dir pe'))).
  { apply alts_insert; [done|]. eapply alt_ok_same; [exact Hal|]. by eapply HA2. }
  by destruct fr.
Qed.

Lemma mkdir_loop_alts ps : ∀ m md, alts_ok m → alts_ok (mkdir_loop m ps md).1.
Proof.
  induction ps as [|p ps IH]; intros m md HA; cbn [mkdir_loop]; [done|].
  pose proof (add_alts m (new_dir p md) HA ltac:(by apply alt_ok_none)) as H.
  destruct (add m (new_dir p md)) as [m' [q|e]]; cbn [fst] in *; [by apply IH|done].
Qed.

Lemma mkdir_m_abs_alts m p md : alts_ok m → alts_ok (mkdir_m_abs m p md).1.
Proof.
  intros HA. unfold mkdir_m_abs. pose proof (add_alts m (new_dir [] md) HA ltac:(by apply alt_ok_none)) as H.
  destruct (add m (new_dir [] md)) as [m0 [r|e]]; cbn [fst] in *; [by apply mkdir_loop_alts|exact H].
Qed.

Lemma symlink_alts env m l t : alts_ok m → alts_ok (symlink_op env m l t).1.
Proof.
  intros HA. unfold symlink_op. destruct (resolve env m l) as [lp|e] eqn:Hl; [|done].
  destruct (if is_absolute t then _ else _) as [t'|e]; [|done].
  destruct (resolve env m t') as [tp|e] eqn:Ht; [|done]. case_bool_decide; [done|].
  destruct lp as [|b d]; [done|]. apply add_alts; [done|]. intros a Ha. cbn in Ha. simplify_eq. exact (resolve_names_ok env m t' _ Ht).
Qed.

Lemma write_all_alts env m s d : alts_ok m → alts_ok (write_all_op env m s d).1.
Proof.
  intros HA. unfold write_all_op. destruct (resolve env m s) as [p|e] eqn:Hs; [|done].
  pose proof (add_alts m (new_file p) HA ltac:(by apply alt_ok_none)) as H.
  destruct (add m (new_file p)) as [m' [r|e]]; cbn [fst] in *; [|done]. destruct (m_data m' !! p); [by apply alts_data | done].
Qed.

Lemma append_all_alts env m s d : alts_ok m → alts_ok (append_all_op env m s d).1.
Proof.
  intros HA. unfold append_all_op. destruct (resolve env m s) as [p|e] eqn:Hs; [|done].
  pose proof (add_alts m (new_file p) HA ltac:(by apply alt_ok_none)) as H.
  destruct (add m (new_file p)) as [m' [r|e]]; cbn [fst] in *; [|done]. destruct (m_data m' !! p); [by apply alts_data | done].
Qed.

Lemma alts_insert_removed m dir pe base : alts_ok m → m_ents m !! dir = Some pe → alts_ok (upd_ents m (insert dir (entry_remove pe base))).
Proof. intros HA Hpe. apply alts_insert; [done|]. eapply alt_ok_same; [apply entry_remove_alt|]. by eapply HA. Qed.

Lemma remove_alts env m s : alts_ok m → alts_ok (remove_op env m s).1.
Proof.
  intros HA. unfold remove_op. destruct (resolve env m s) as [p|e]; [|done].
  destruct (negb _); [done|]. destruct (match m_ents m !! p with Some e => _ | None => false end); [done|].
  destruct p as [|base dir]; [done|].
  destruct (m_ents m !! dir) as [pe|] eqn:Hpe.
  - destruct (e_dir pe); [|done]. cbn [fst]. apply alts_delete.
    pose proof (alts_insert_removed m dir pe base HA Hpe). repeat case_match; [by apply alts_data | done | done].
  - cbn [fst]. apply alts_delete. repeat case_match; [by apply alts_data | done | done].
Qed.

Lemma remove_all_loop_alts fuel : ∀ m paths r, alts_ok m → remove_all_loop fuel m paths = Done r → alts_ok r.1.
Proof.
  induction fuel as [|f IH]; intros m paths r HA; cbn [remove_all_loop]; [discriminate|].
  destruct paths as [|p rest]; [intros H; by simplify_eq|].
  destruct (m_ents m !! p) as [e|] eqn:He; [|by apply IH].
  destruct (match e_files e with Some fs => elements fs | None => [] end) as [|k ks] eqn:Hk; [|by apply IH].
  destruct p as [|base dir]; [intros H; by simplify_eq|].
  destruct (m_ents m !! dir) as [pe|] eqn:Hpe.
  - destruct (e_dir pe); [|intros H; by simplify_eq]. apply IH. apply alts_delete, alts_data. by apply alts_insert_removed.
  - apply IH. by apply alts_delete, alts_data.
Qed.

Lemma set_mode_at_alts m p md : alts_ok m → alts_ok (set_mode_at m p md).
Proof. intros HA. unfold set_mode_at. destruct (m_ents m !! p) as [x|] eqn:E; [|done]. apply alts_insert; [done|]. eapply alt_ok_same; [|by eapply HA]. done. Qed.

Lemma chmod_events_alts o evs : ∀ m, alts_ok m → alts_ok (chmod_events o m evs).1.
Proof.
  induction evs as [|ev evs IH]; intros m HA; cbn [chmod_events]; [done|].
  destruct ev as [x|[src|w]]; [| |done].
  - apply IH. unfold chmod_pre_apply. repeat case_match; try done; by apply set_mode_at_alts.
  - assert (H : alts_ok (chmod_item_apply o m src).1) by (unfold chmod_item_apply; repeat case_match; cbn [fst]; try done; by apply set_mode_at_alts).
    destruct (chmod_item_apply o m src) as [m' [e|]]; cbn [fst] in *; [done | by apply IH].
Qed.

Lemma chmod_op_alts env m s o r : alts_ok m → chmod_op env m s o = Done r → alts_ok r.1.
Proof.
  intros HA. unfold chmod_op. destruct (resolve env m s) as [p|e]; [|intros H; by simplify_eq].
  destruct (walk _ _ _ p) as [[evs| |]|e]; intros H; simplify_eq; cbn [fst]; try done. by apply chmod_events_alts.
Qed.

Lemma chown_op_alts env m s o r : alts_ok m → chown_op env m s o = Done r → alts_ok r.1.
Proof.
  intros HA. unfold chown_op. destruct (resolve env m s) as [p|e]; [|intros H; by simplify_eq].
  destruct (walk _ _ _ p) as [[evs| |]|e]; try (intros H; simplify_eq; cbn [fst]; exact HA); try discriminate.
  destruct (oks_until_err (items_of evs)) as [es err]. intros H. simplify_eq. cbn [fst].
  clear -HA. revert m HA. induction es as [|e es IH]; intros m HA; cbn [fold_left]; [done|]. apply IH.
  destruct (m_ents m !! e_path e) as [x|] eqn:E; [|done]. apply alts_insert; [done|]. eapply alt_ok_same; [|by eapply HA]. done.
Qed.

Lemma copy_one_alts env o dm fm m dst src : alts_ok m → alts_ok (copy_one env o dm fm m dst src).1.
Proof.
  intros HA. unfold copy_one. destruct (negb (cp_follow o) && e_link src).
  - pose proof (symlink_alts env m (render_rpath dst) (match e_alt src with Some a => render_rpath a | None => [] end) HA) as H.
    destruct (symlink_op env m _ _) as [m' [p|e]]; exact H.
  - unfold clone_entry. destruct (m_ents m !! e_path src) as [s|] eqn:Hs; [|done].
    destruct (e_dir s) eqn:Hsd; [by apply mkdir_m_abs_alts|].
    destruct dst as [|db ddir]; [done|].
    assert (Hrest : ∀ m1, alts_ok m1 → alts_ok (copy_file_rest fm (db :: ddir) s m1).1).
    { intros m1 HA1. unfold copy_file_rest.
      assert (Hse : alt_ok (set_mode (set_path s (db :: ddir)) (orelse fm (Some (e_mode s))))) by (eapply alt_ok_same; [|by eapply HA]; done).
      pose proof (add_alts m1 _ HA1 Hse) as Ha.
      destruct (add m1 _) as [m2a [p|e]]; cbn [fst] in *; [|done].
      assert (alts_ok (match fm with Some md => set_mode_at m2a (db :: ddir) md | None => m2a end)) by (destruct fm; [by apply set_mode_at_alts | done]).
      repeat case_match; cbn [fst]; try done; by apply alts_data. }
    destruct (m_ents m !! ddir); [exact (Hrest m HA)|].
    destruct dm as [x|].
    + pose proof (mkdir_m_abs_alts m ddir (Some x) HA) as H. destruct (mkdir_m_abs m ddir (Some x)) as [m1 [u|e]]; cbn [fst] in *; [exact (Hrest m1 H) | done].
    + destruct (e_path s) as [|sb sdir] eqn:Hps; [done|]. unfold clone_entry. destruct (m_ents m !! sdir) as [pe|]; [|done].
      pose proof (mkdir_m_abs_alts m ddir (Some (e_mode pe)) HA) as H. destruct (mkdir_m_abs m ddir (Some (e_mode pe))) as [m1 [u|e]]; cbn [fst] in *; [|done].
      rewrite <- Hps. exact (Hrest m1 H).
Qed.

Lemma copy_loop_alts env o dm fm ci dr sr is : ∀ m, alts_ok m → alts_ok (copy_loop env o dm fm ci dr sr m is).1.
Proof.
  induction is as [|it is IH]; intros m HA; cbn [copy_loop]; [done|].
  destruct it as [src|w]; [|done]. destruct (if ci then _ else _) as [prefix|e]; [|done].
  case_bool_decide; [by apply IH|].
  pose proof (copy_one_alts env o dm fm m (copy_dst dr (e_path src) prefix) src HA) as Hc.
  destruct (copy_one env o dm fm m _ src) as [m' [u|e]]; cbn [fst] in *; [by apply IH | done].
Qed.

Lemma copy_op_alts env m s d o r : alts_ok m → copy_op env m s d o = Done r → alts_ok r.1.
Proof.
  intros HA. unfold copy_op. destruct (resolve env m s) as [sp|e]; [|intros H; by simplify_eq].
  destruct (resolve env m d) as [dp|e]; [|intros H; by simplify_eq].
  case_bool_decide; [intros Hq; by simplify_eq|].
  destruct (clone_entry m sp) as [re|e]; [|intros Hq; by simplify_eq].
  destruct (walk _ _ _ _) as [[evs| |]|e]; intros Hq; simplify_eq; cbn [fst]; try done. by apply copy_loop_alts.
Qed.

Lemma move_loop_alts fuel : ∀ m sr dt paths r, alts_ok m → move_loop fuel m sr dt paths = Done r → alts_ok r.1.
Proof.
  induction fuel as [|f IH]; intros m sr dt paths r HA; cbn [move_loop]; [discriminate|].
  destruct paths as [|sp rest]; [intros H; by simplify_eq|].
  destruct (m_ents m !! sp) as [se|] eqn:Hse; [|intros H; by simplify_eq]. cbn zeta.
  set (dp := rebase sr dt sp).
  set (se' := if e_link se && negb (is_absolute (e_rel se)) then _ else set_path se dp).
  assert (Hse' : alt_ok se').
  { unfold se'. destruct (e_link se && negb (is_absolute (e_rel se))).
    - intros a Ha. cbn in Ha. simplify_eq. unfold names_ok. apply List.Forall_rev, names_of_ok.
    - eapply alt_ok_same; [|by eapply HA]. done. }
  set (m1 := upd_ents m (fun es => insert dp se' (delete sp es))).
  assert (HA1 : alts_ok m1) by (by apply alts_insert_delete).
  set (m2 := match m_data m1 !! sp with Some d => _ | None => m1 end).
  assert (HA2 : alts_ok m2) by (unfold m2; destruct (m_data m1 !! sp); [by apply alts_data|done]).
  destruct sp as [|sbase sdir]; [intros H; by simplify_eq|].
  destruct (m_ents m2 !! sdir) as [op|] eqn:Hop; [|by apply IH].
  destruct (negb (e_dir op)); [intros H; by simplify_eq|].
  pose proof (alts_insert_removed m2 sdir op sbase HA2 Hop) as HA3.
  destruct dp as [|dbase ddir]; [intros H; by simplify_eq|].
  destruct (m_ents (upd_ents m2 (insert sdir (entry_remove op sbase))) !! ddir) as [np|] eqn:Hnp; [|intros H; by simplify_eq].
  destruct (negb (e_dir np)); [intros H; by simplify_eq|].
  apply IH. apply alts_insert; [done|]. eapply alt_ok_same; [apply entry_add_alt|]. by eapply HA3.
Qed.

Lemma move_op_alts env m s d r : alts_ok m → move_op env m s d = Done r → alts_ok r.1.
Proof.
  intros HA. unfold move_op. destruct (move_validate env m s d); [intros H; by simplify_eq|intros H; by simplify_eq|].
  apply move_loop_alts. destruct (m_ents m !! dt); [by apply alts_data|done].
Qed.

Definition cwd_inv (m : mfs) : Prop := names_ok (m_cwd m) ∧ alts_ok m.

Lemma set_cwd_inv env m s : cwd_inv m → cwd_inv (set_cwd_op env m s).1.
Proof.
  intros [Hc HA]. unfold set_cwd_op. destruct (resolve env m s) as [p|e] eqn:E; [|done].
  pose proof (resolve_names_ok env m s p E) as Hp. destruct (m_ents m !! p) as [x|] eqn:Hx; [|done].
  destruct (e_dir x); [|done]. cbn [fst]. split; [|exact HA]. cbn [m_cwd].
  destruct (e_link x); [|done]. destruct (e_alt x) as [t|] eqn:Ht; [by eapply HA|constructor].
Qed.

Theorem cwd_step env m o m' r : cwd_inv m → step env m o = Done (m', r) → cwd_inv m'.
Proof.
  intros [HK HA] Hs. destruct o; cbn [step] in Hs;
    try (apply done_fst in Hs; cbn [fst] in Hs; subst m'; exact (conj HK HA)).
  - apply done_fst in Hs. rewrite <- Hs, lift_path_fst. by apply set_cwd_inv.
  - apply done_fst in Hs. rewrite <- Hs. destruct (resolve env m s) as [p|e]; [|done]. rewrite lift_path_fst. split; [by rewrite add_cwd|].
    apply add_alts; [done|by apply alt_ok_none].
  - apply done_fst in Hs. rewrite <- Hs. destruct (resolve env m s) as [p|e]; [|done].
    pose proof (mkdir_m_abs_cwd m p None) as H. pose proof (mkdir_m_abs_alts m p None HA) as H'.
    destruct (mkdir_m_abs m p None) as [m1 [u|e]]; cbn [fst] in *; split; try done; by rewrite H.
  - apply done_fst in Hs. rewrite <- Hs. destruct (resolve env m s) as [p|e]; [|done].
    pose proof (mkdir_m_abs_cwd m p (Some mode)) as H. pose proof (mkdir_m_abs_alts m p (Some mode) HA) as H'.
    destruct (mkdir_m_abs m p (Some mode)) as [m1 [u|e]]; cbn [fst] in *; split; try done; by rewrite H.
  - apply done_fst in Hs. rewrite <- Hs, lift_unit_fst. split; [by rewrite write_all_cwd|by apply write_all_alts].
  - apply done_fst in Hs. rewrite <- Hs. destruct (nl_join ls); [done|]. rewrite lift_unit_fst. split; [by rewrite write_all_cwd|by apply write_all_alts].
  - apply done_fst in Hs. rewrite <- Hs, lift_unit_fst. split; [by rewrite append_all_cwd|by apply append_all_alts].
  - apply done_fst in Hs. rewrite <- Hs. destruct l; [done|]. rewrite lift_unit_fst. split; [by rewrite append_all_cwd|by apply append_all_alts].
  - apply done_fst in Hs. rewrite <- Hs. destruct (nl_join ls); [done|]. rewrite lift_unit_fst. split; [by rewrite append_all_cwd|by apply append_all_alts].
  - apply done_fst in Hs. rewrite <- Hs, lift_unit_fst. split; [by rewrite remove_cwd|by apply remove_alts].
  - destruct (remove_all_op env m s) as [r0| |] eqn:E; try discriminate.
    apply done_fst in Hs. rewrite <- Hs, lift_unit_fst. unfold remove_all_op in E. destruct (resolve env m s); [|by simplify_eq].
    split; [by rewrite (remove_all_loop_cwd _ _ _ _ E)|by eapply remove_all_loop_alts].
  - apply done_fst in Hs. rewrite <- Hs, lift_path_fst. split; [by rewrite symlink_cwd|by apply symlink_alts].
  - destruct (move_op env m s d) as [[m1 r1]| |] eqn:E; try discriminate.
    apply done_fst in Hs. rewrite <- Hs, lift_unit_fst. split; [by rewrite (move_op_cwd _ _ _ _ _ E)|exact (move_op_alts _ _ _ _ _ HA E)].
  - destruct (listing_op env m k s) as [[ps|e]| |]; try discriminate; apply done_fst in Hs; cbn in Hs; subst; done.
  - destruct (resolve env m s) as [p|e]; [|apply done_fst in Hs; cbn in Hs; subst; done].
    destruct (walk (m_ents m) wo no_pre p) as [[evs| |]|e]; try discriminate; apply done_fst in Hs; cbn in Hs; subst; done.
  - destruct (copy_op env m s d o) as [r0| |] eqn:E; try discriminate.
    apply done_fst in Hs. rewrite <- Hs, lift_unit_fst. split; [by rewrite (copy_op_cwd _ _ _ _ _ _ E)|exact (copy_op_alts _ _ _ _ _ _ HA E)].
  - destruct (chmod_op env m s o) as [r0| |] eqn:E; try discriminate.
    apply done_fst in Hs. rewrite <- Hs, lift_unit_fst. split; [by rewrite (chmod_op_cwd _ _ _ _ _ E)|exact (chmod_op_alts _ _ _ _ _ HA E)].
  - destruct (chown_op env m s o) as [r0| |] eqn:E; try discriminate.
    apply done_fst in Hs. rewrite <- Hs, lift_unit_fst. split; [by rewrite (chown_op_cwd _ _ _ _ _ E)|exact (chown_op_alts _ _ _ _ _ HA E)].
  - destruct (resolve env m s) as [p|e] eqn:Hr; [|apply done_fst in Hs; cbn in Hs; subst; done].
    pose proof (add_cwd m (new_file p)) as Ha. pose proof (add_alts m (new_file p) HA ltac:(by apply alt_ok_none)) as Ha'.
    destruct (add m (new_file p)) as [m1 [p'|e]]; cbn [fst] in Ha, Ha'; [|apply done_fst in Hs; cbn in Hs; subst; split; [by rewrite Ha|done]].
    destruct (chmod_op env m1 _ _) as [[m2 [u|e]]| |] eqn:E; try discriminate;
      apply done_fst in Hs; cbn in Hs; subst; pose proof (chmod_op_cwd _ _ _ _ _ E) as H2; pose proof (chmod_op_alts _ _ _ _ _ Ha' E) as H3; cbn [fst] in H2, H3;
      (split; [by rewrite H2, Ha|done]).
Qed.

Lemma cwd_init : cwd_inv mfs_init.
Proof.
  split; [constructor|]. intros p x Hx. unfold mfs_init in Hx. cbn in Hx. apply lookup_singleton_Some in Hx as [_ <-]. by apply alt_ok_none.
Qed.

Theorem reachable_cwd env os : ∀ m m', cwd_inv m → run_ops env m os = Some m' → cwd_inv m'.
Proof.
  induction os as [|o os IH]; intros m m' HK Hr; cbn in *; [by simplify_eq|].
  destruct (step env m o) as [[m1 r]| |] eqn:Hs; try discriminate.
  eapply IH; [|exact Hr]. by eapply cwd_step.
Qed.

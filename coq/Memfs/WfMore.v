(* Memfs/WfMore.v — C03: the traversal-based mutators keep the namespace well formed.
   chmod / chown only rewrite the mode / owner of stored entries; copy is a sequence of _add, _mkdir_m, _symlink and
   data insertions, each of which preserves WF on its own; mkfile_m is _add followed by chmod. *)
From stdpp Require Import gmap.
From Coq Require Import NArith.
From RV Require Import Base.Str Path.Helpers Path.Expand Chmod.Sym Memfs.State Memfs.Ops Memfs.Walk Memfs.WalkOps Memfs.Step Memfs.Wf.

(* replacing an entry by one that differs only in mode / owner / follow flag *)
Definition same_shape (e e' : entry) : Prop :=
  e_path e' = e_path e ∧ e_dir e' = e_dir e ∧ e_file e' = e_file e ∧ e_link e' = e_link e ∧ e_files e' = e_files e.

Lemma files_of_shape e e' : same_shape e e' → files_of e' = files_of e.
Proof. intros (_ & _ & _ & _ & H). unfold files_of. by rewrite H. Qed.

Lemma upd_meta_wf m p e e' : WF m → m_ents m !! p = Some e → same_shape e e' → WF (upd_ents m (insert p e')).
Proof.
  intros HW He Hs. pose proof (files_of_shape e e' Hs) as Hf. destruct Hs as (S1 & S2 & S3 & S4 & S5).
  assert (Hlk : ∀ q x, <[p:=e']> (m_ents m) !! q = Some x →
            ∃ x0, m_ents m !! q = Some x0 ∧ e_path x = e_path x0 ∧ e_dir x = e_dir x0 ∧ e_file x = e_file x0 ∧
                  e_link x = e_link x0 ∧ e_files x = e_files x0).
  { intros q x Hq. destruct (decide (q = p)) as [->|Hne].
    - rewrite lookup_insert in Hq. simplify_eq. exists e. done.
    - rewrite lookup_insert_ne in Hq by done. exists x. done. }
  assert (Hkl : ∀ q x0, m_ents m !! q = Some x0 →
            ∃ x, <[p:=e']> (m_ents m) !! q = Some x ∧ e_path x = e_path x0 ∧ e_dir x = e_dir x0 ∧ e_file x = e_file x0 ∧
                 e_link x = e_link x0 ∧ e_files x = e_files x0).
  { intros q x0 Hq. destruct (decide (q = p)) as [->|Hne].
    - rewrite lookup_insert. simplify_eq. exists e'. done.
    - rewrite lookup_insert_ne by done. exists x0. done. }
  constructor; cbn [upd_ents m_ents m_data m_root].
  - destruct (wf_root m HW) as (r & Hr & Hd & Hl). destruct (Hkl _ _ Hr) as (x & Hx & _ & D & _ & L & _).
    exists x. split; [done|]. split; congruence.
  - intros q x Hq. destruct (Hlk _ _ Hq) as (x0 & H0 & P & _). rewrite P. by eapply wf_key.
  - intros n d x Hq. destruct (Hlk _ _ Hq) as (x0 & H0 & _). destruct (wf_par m HW _ _ _ H0) as (pe & Hpe & (Hd & Hl) & Hin).
    destruct (Hkl _ _ Hpe) as (pe' & Hpe' & _ & D & _ & L & F). exists pe'. split; [done|]. split; [split; congruence|].
    unfold files_of in *. by rewrite F.
  - intros q x n Hq Hin. destruct (Hlk _ _ Hq) as (x0 & H0 & _ & _ & _ & _ & F).
    assert (n ∈ files_of x0) by (unfold files_of in *; by rewrite <- F).
    destruct (wf_chl m HW _ _ _ H0 H) as [y Hy]. destruct (Hkl _ _ Hy) as (y' & Hy' & _). eauto.
  - intros q. rewrite (wf_dat m HW q). split.
    + intros (x0 & H0 & F & L). destruct (Hkl _ _ H0) as (x & Hx & _ & _ & F' & L' & _). exists x. split; [done|]. split; congruence.
    + intros (x & Hx & F & L). destruct (Hlk _ _ Hx) as (x0 & H0 & _ & _ & F' & L' & _). exists x0. split; [done|]. split; congruence.
  - intros q x Hq. destruct (Hlk _ _ Hq) as (x0 & H0 & _ & D & _ & _ & F). rewrite F, D. by eapply wf_fls.
  - intros q x Hq Hl. destruct (Hlk _ _ Hq) as (x0 & H0 & _ & _ & _ & L & F). unfold files_of. rewrite F.
    eapply (wf_lnk m HW); [done | congruence].
  - apply (wf_rootpath m HW).
Qed.

Lemma set_mode_shape e mode : same_shape e (set_mode e mode).
Proof. by repeat split. Qed.
Lemma set_owner_shape e u g : same_shape e (set_owner e u g).
Proof. by repeat split. Qed.

Lemma set_mode_at_wf m p mode : WF m → WF (set_mode_at m p mode).
Proof.
  intros HW. unfold set_mode_at. destruct (m_ents m !! p) as [x|] eqn:E; [|exact HW].
  eapply upd_meta_wf; [exact HW | exact E | apply set_mode_shape].
Qed.

(* ---- chmod ---- *)
Lemma chmod_pre_apply_wf o m x : WF m → WF (chmod_pre_apply o m x).
Proof. intros HW. unfold chmod_pre_apply. repeat case_match; try exact HW; by apply set_mode_at_wf. Qed.

Lemma chmod_item_apply_wf o m x : WF m → WF (chmod_item_apply o m x).1.
Proof. intros HW. unfold chmod_item_apply. repeat case_match; cbn [fst]; try exact HW; by apply set_mode_at_wf. Qed.

Lemma chmod_events_wf o evs : ∀ m, WF m → WF (chmod_events o m evs).1.
Proof.
  induction evs as [|ev evs IH]; intros m HW; cbn [chmod_events]; [exact HW|].
  destruct ev as [x|[src|w]].
  - apply IH. by apply chmod_pre_apply_wf.
  - pose proof (chmod_item_apply_wf o m src HW) as H. destruct (chmod_item_apply o m src) as [m' [e|]]; cbn [fst] in *; [exact H | by apply IH].
  - exact HW.
Qed.

Lemma chmod_op_wf env m s o r : WF m → chmod_op env m s o = Done r → WF r.1.
Proof.
  intros HW. unfold chmod_op. destruct (resolve env m s) as [p|e]; [|intros H; by simplify_eq].
  destruct (walk _ _ _ p) as [[evs| |]|e]; intros H; simplify_eq; cbn [fst]; try exact HW. by apply chmod_events_wf.
Qed.

(* ---- chown ---- *)
Lemma chown_fold_wf u g es : ∀ m, WF m →
  WF (fold_left (fun acc e => match m_ents acc !! e_path e with
                              | Some x => upd_ents acc (insert (e_path e) (set_owner x u g))
                              | None => acc
                              end) es m).
Proof.
  induction es as [|e es IH]; intros m HW; cbn [fold_left]; [exact HW|]. apply IH.
  destruct (m_ents m !! e_path e) as [x|] eqn:E; [|exact HW]. eapply upd_meta_wf; [exact HW | exact E | apply set_owner_shape].
Qed.

Lemma chown_op_wf env m s o r : WF m → chown_op env m s o = Done r → WF r.1.
Proof.
  intros HW. unfold chown_op. destruct (resolve env m s) as [p|e]; [|intros H; by simplify_eq].
  destruct (walk _ _ _ p) as [[evs| |]|e]; try (intros H; simplify_eq; cbn [fst]; exact HW); try discriminate.
  destruct (oks_until_err (items_of evs)) as [es err]. intros H. simplify_eq. cbn [fst]. by apply chown_fold_wf.
Qed.

(* ---- copy ---- *)
(* _add of a regular file leaves its data present *)
Lemma add_file_data m e m' p : WF m → add m e = (m', inl p) → e_file e = true → e_link e = false → e_dir e = false →
  is_Some (m_data m' !! e_path e).
Proof.
  intros HW. unfold add. destruct (e_path e) as [|base dir] eqn:Hp.
  - intros H Hf. rewrite Hf in H. discriminate.
  - destruct (m_ents m !! dir) as [pe|] eqn:Hpe; [|discriminate].
    destruct (negb (e_dir pe) || e_link pe) eqn:Hd; [discriminate|].
    destruct (m_ents m !! (base :: dir)) as [x|] eqn:Hx.
    + intros H Hf Hl Hdir. rewrite Hf, Hl, Hdir in H. cbn in H.
      destruct (e_file x) eqn:Hxf; cbn in H; [|discriminate]. destruct (e_link x) eqn:Hxl; cbn in H; [discriminate|].
      assert (m' = m) as -> by congruence. apply (wf_dat m HW). eauto.
    + intros H Hf Hl Hdir. rewrite Hf, Hl in H. cbn [negb andb] in H.
      set (m2 := upd_ents (upd_data m (insert (base :: dir) [])) (insert (base :: dir) e)) in *.
      assert (Hd2 : is_Some (m_data m2 !! (base :: dir))) by (cbn; rewrite lookup_insert; eauto).
      destruct (m_ents m2 !! dir) as [parent|].
      * destruct (entry_add parent base) as [parent' fr]. destruct fr; simplify_eq; exact Hd2.
      * simplify_eq. exact Hd2.
Qed.

(* the part of copy_one after the destination's parent has been made sure of *)
Definition copy_file_rest (fm : option N) (dst_path : rpath) (src : entry) (m1 : mfs) : mfs * mres unit :=
  let dst := set_mode (set_path src dst_path) (orelse fm (Some (e_mode src))) in
  match add m1 dst with
  | (m2, inr e) => (m2, inr e)
  | (m2a, inl _) =>
      let m2 := match fm with Some md => set_mode_at m2a dst_path md | None => m2a end in
      if negb (e_link src) then
        if negb (e_file src) then (m2, inr EIsNotFile) else
        match m_data m2 !! e_path src with
        | Some d => (upd_data m2 (insert dst_path d), inl tt)
        | None => (m2, inr EDoesNotExist)
        end
      else (m2, inl tt)
  end.

Lemma copy_file_rest_wf fm db ddir s m1 : WF m1 → e_dir s = false → e_files s = None →
  WF (copy_file_rest fm (db :: ddir) s m1).1.
Proof.
  intros Hpre Hsd Hsf0. unfold copy_file_rest.
  set (d := set_mode (set_path s (db :: ddir)) (orelse fm (Some (e_mode s)))).
  assert (Hfresh : fresh d) by (unfold fresh, d; cbn; rewrite Hsd; exact Hsf0).
  pose proof (add_wf m1 d Hpre Hfresh) as Hadd.
  destruct (add m1 d) as [m2a [p|e]] eqn:Ea; cbn [fst] in *; [|exact Hadd].
  set (m2 := match fm with Some md => set_mode_at m2a (db :: ddir) md | None => m2a end).
  assert (HW2 : WF m2) by (unfold m2; destruct fm; [by apply set_mode_at_wf | exact Hadd]).
  destruct (e_link s) eqn:Hsl; cbn [negb]; [exact HW2|].
  destruct (e_file s) eqn:Hsf; cbn [negb]; [|exact HW2].
  destruct (m_data m2 !! e_path s) as [dat|]; [|exact HW2]. cbn [fst].
  apply data_set_wf; [exact HW2|].
  assert (Hd : is_Some (m_data m2a !! (db :: ddir))).
  { assert (e_path d = db :: ddir) as Hpd by reflexivity. rewrite <- Hpd. eapply add_file_data; [exact Hpre | exact Ea | | |]; cbn; done. }
  unfold m2. destruct fm; [|exact Hd]. unfold set_mode_at. destruct (m_ents m2a !! (db :: ddir)); exact Hd.
Qed.

Lemma copy_one_wf env o dm fm m dst src : WF m → WF (copy_one env o dm fm m dst src).1.
Proof.
  intros HW. unfold copy_one. destruct (negb (cp_follow o) && e_link src).
  - pose proof (symlink_wf env m (render_rpath dst) (match e_alt src with Some a => render_rpath a | None => [] end) HW) as H.
    destruct (symlink_op env m _ _) as [m' [p|e]]; exact H.
  - unfold clone_entry. destruct (m_ents m !! e_path src) as [s|] eqn:Hs; [|exact HW].
    destruct (e_dir s) eqn:Hsd.
    + apply mkdir_m_abs_wf. exact HW.
    + destruct dst as [|db ddir]; [exact HW|].
      assert (Hsf0 : e_files s = None) by (apply (wf_fls m HW _ _ Hs); exact Hsd).
      destruct (m_ents m !! ddir).
      * exact (copy_file_rest_wf fm db ddir s m HW Hsd Hsf0).
      * destruct dm as [x|].
        -- pose proof (mkdir_m_abs_wf m ddir (Some x) HW) as H. destruct (mkdir_m_abs m ddir (Some x)) as [m1 [u|e]]; cbn [fst] in *; [|exact H].
           exact (copy_file_rest_wf fm db ddir s m1 H Hsd Hsf0).
        -- destruct (e_path s) as [|sb sdir] eqn:Hps; [exact HW|]. unfold clone_entry. destruct (m_ents m !! sdir) as [pe|]; [|exact HW].
           pose proof (mkdir_m_abs_wf m ddir (Some (e_mode pe)) HW) as H. destruct (mkdir_m_abs m ddir (Some (e_mode pe))) as [m1 [u|e]]; cbn [fst] in *; [|exact H].
           rewrite <- Hps. exact (copy_file_rest_wf fm db ddir s m1 H Hsd Hsf0).
Qed.

Lemma copy_loop_wf env o dm fm ci dr sr is : ∀ m, WF m → WF (copy_loop env o dm fm ci dr sr m is).1.
Proof.
  induction is as [|it is IH]; intros m HW; cbn [copy_loop]; [exact HW|].
  destruct it as [src|w]; [|exact HW].
  destruct (if ci then _ else _) as [prefix|e]; [|exact HW].
  case_bool_decide; [by apply IH|].
  pose proof (copy_one_wf env o dm fm m (copy_dst dr (e_path src) prefix) src HW) as Hc.
  destruct (copy_one env o dm fm m _ src) as [m' [u|e]]; cbn [fst] in *; [by apply IH | exact Hc].
Qed.

Lemma copy_op_wf env m s d o r : WF m → copy_op env m s d o = Done r → WF r.1.
Proof.
  intros HW. unfold copy_op. destruct (resolve env m s) as [sp|e]; [|intros H; by simplify_eq].
  destruct (resolve env m d) as [dp|e]; [|intros H; by simplify_eq].
  case_bool_decide; [intros Hq; by simplify_eq|].
  destruct (clone_entry m sp) as [re|e]; [|intros Hq; by simplify_eq].
  destruct (walk _ _ _ _) as [[evs| |]|e]; intros Hq; simplify_eq; cbn [fst]; try exact HW. by apply copy_loop_wf.
Qed.

(* ---- every call except move_p ---- *)
Definition is_move_p (o : op) : bool := match o with OMoveP _ _ => true | _ => false end.

Theorem wf_step_nonmovep env m o m' r : WF m → is_move_p o = false → step env m o = Done (m', r) → WF m'.
Proof.
  intros HW Hnm Hs. destruct (is_move o) eqn:Him; [|by eapply wf_step_nonmove].
  destruct o; cbn [is_move is_move_p] in *; try discriminate; cbn [step] in Hs.
  - (* copy *) destruct (copy_op env m s d o) as [r0| |] eqn:E; try discriminate.
    apply done_fst in Hs. rewrite <- Hs, lift_unit_fst. by eapply copy_op_wf.
  - (* chmod *) destruct (chmod_op env m s o) as [r0| |] eqn:E; try discriminate.
    apply done_fst in Hs. rewrite <- Hs, lift_unit_fst. by eapply chmod_op_wf.
  - (* chown *) destruct (chown_op env m s o) as [r0| |] eqn:E; try discriminate.
    apply done_fst in Hs. rewrite <- Hs, lift_unit_fst. by eapply chown_op_wf.
  - (* mkfile_m *) destruct (resolve env m s) as [p|e]; [|apply done_fst in Hs; cbn in Hs; subst; exact HW].
    pose proof (add_wf m (new_file p) HW (fresh_new_file p)) as Ha.
    destruct (add m (new_file p)) as [m1 [p'|e]]; cbn [fst] in Ha; [|apply done_fst in Hs; cbn in Hs; subst; exact Ha].
    destruct (chmod_op env m1 _ _) as [[m2 [u|e]]| |] eqn:E; try discriminate;
      apply done_fst in Hs; cbn in Hs; subst; by apply (chmod_op_wf _ _ _ _ _ Ha E).
Qed.

(* ---- every history without move_p, from the fresh filesystem ---- *)
Fixpoint run_ops (env : envmap) (m : mfs) (os : list op) : option mfs :=
  match os with
  | [] => Some m
  | o :: rest => match step env m o with Done (m', _) => run_ops env m' rest | _ => None end
  end.

Theorem wf_history env os : ∀ m m', WF m → forallb (fun o => negb (is_move_p o)) os = true → run_ops env m os = Some m' → WF m'.
Proof.
  induction os as [|o os IH]; intros m m' HW Hall Hr; cbn in *; [by simplify_eq|].
  apply andb_true_iff in Hall as [Ho Hall]. apply negb_true_iff in Ho.
  destruct (step env m o) as [[m1 r]| |] eqn:Hs; try discriminate.
  eapply IH; [| exact Hall | exact Hr]. by eapply wf_step_nonmovep.
Qed.

Example wf_history_nonvacuous :
  match run_ops (fun _ => None) mfs_init
          [OMkdirP [47; 97]%N; OWriteAll [47; 97; 47; 102]%N [1]%N; OSymlink [47; 108]%N [47; 97]%N;
           OCopy [47; 97]%N [47; 98]%N {| cp_mode := None; cp_cdirs := false; cp_cfiles := false; cp_follow := false |};
           OChmod [47]%N {| ch_dirs := 448; ch_files := 384; ch_follow := false; ch_recursive := true; ch_sym := [] |}] with
  | Some m' => size (m_ents m') =? 6
  | None => false
  end = true.
Proof. vm_compute. reflexivity. Qed.

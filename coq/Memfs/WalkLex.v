(* Memfs/WalkLex.v — the order of a sorted traversal without follow, dirs_first, files_first and contents_first (the listing
   helpers paths, dirs, files and their recursive forms): the yielded paths are strictly increasing in the lexicographic order on component
   lists, names compared as `sort_by_name` compares them (C08).  A set of paths has exactly one such ordering, so the listing
   is determined by the tree alone: the reference filesystem can state it without a traversal (Memfs/RefineList.v). *)
From stdpp Require Import gmap sorting.
From Coq Require Import NArith.
From RV Require Import Base.Str Path.Helpers Memfs.State Memfs.Walk Memfs.WalkFacts Memfs.WalkSpec Memfs.WalkTerm Memfs.WalkExact Memfs.Wf.

(* ---- the order ---- *)
Fixpoint fwd_leb (a b : list (list N)) : bool :=
  match a, b with
  | [], _ => true
  | _ :: _, [] => false
  | x :: a', y :: b' => if decide (x = y) then fwd_leb a' b' else name_leb x y
  end.

Definition plex (p q : rpath) : Prop := fwd_leb (rev p) (rev q) = true.

Global Instance plex_dec p q : Decision (plex p q).
Proof. unfold plex. apply _. Defined.

Lemma fwd_leb_total a : ∀ b, fwd_leb a b = false → fwd_leb b a = true.
Proof.
  induction a as [|x a IH]; intros [|y b]; cbn; try done.
  destruct (decide (x = y)) as [->|Hne]; [rewrite decide_True by done; apply IH|].
  rewrite decide_False by (intros ->; done). apply name_leb_total.
Qed.

Lemma fwd_leb_refl a : fwd_leb a a = true.
Proof. induction a as [|x a IH]; [done|]. cbn. by rewrite decide_True. Qed.

Lemma fwd_leb_antisym a : ∀ b, fwd_leb a b = true → fwd_leb b a = true → a = b.
Proof.
  induction a as [|x a IH]; intros [|y b]; cbn; try done.
  destruct (decide (x = y)) as [->|Hne].
  - rewrite decide_True by done. intros H1 H2. f_equal. by apply IH.
  - rewrite decide_False by (intros ->; done). intros H1 H2. exfalso. apply Hne. by apply name_leb_antisym.
Qed.

Lemma fwd_leb_trans a : ∀ b c, fwd_leb a b = true → fwd_leb b c = true → fwd_leb a c = true.
Proof.
  induction a as [|x a IH]; intros [|y b] [|z c]; cbn; try done.
  destruct (decide (x = y)) as [->|Hxy].
  - destruct (decide (y = z)) as [->|Hyz]; [apply IH|done].
  - destruct (decide (y = z)) as [->|Hyz].
    + by rewrite decide_False by done.
    + intros H1 H2. destruct (decide (x = z)) as [->|Hxz].
      * exfalso. apply Hxy. by apply name_leb_antisym.
      * by eapply name_leb_trans.
Qed.

Global Instance plex_total : Total plex.
Proof. intros p q. unfold plex. destruct (fwd_leb (rev p) (rev q)) eqn:E; [by left|right; by apply fwd_leb_total]. Qed.
Global Instance plex_trans : Transitive plex.
Proof. intros p q r. unfold plex. apply fwd_leb_trans. Qed.
Global Instance plex_antisym : AntiSymm (=) plex.
Proof. intros p q H1 H2. unfold plex in *. rewrite <- (rev_involutive p), <- (rev_involutive q). f_equal. by apply fwd_leb_antisym. Qed.

Lemma fwd_leb_app a : ∀ b c, fwd_leb (a ++ b) (a ++ c) = fwd_leb b c.
Proof. induction a as [|x a IH]; intros b c; [done|]. cbn. by rewrite decide_True. Qed.

(* a path comes before everything below it *)
Lemma plex_under p q : p `suffix_of` q → plex p q.
Proof. intros [j ->]. unfold plex. rewrite rev_app_distr. rewrite <- (app_nil_r (rev p)) at 1. by rewrite fwd_leb_app. Qed.

(* two subtrees hanging off the same directory are ordered as their names are *)
Lemma plex_diverge p n n' q q' : n ≠ n' → name_leb n n' = true → (n :: p) `suffix_of` q → (n' :: p) `suffix_of` q' → plex q q'.
Proof.
  intros Hne Hle [j ->] [j' ->]. unfold plex. rewrite !rev_app_distr. cbn [rev]. rewrite <- !app_assoc. rewrite fwd_leb_app. cbn.
  by rewrite decide_False.
Qed.

(* ---- sorted pieces ---- *)
Lemma StronglySorted_app_2 {A} (R : relation A) l1 l2 :
  StronglySorted R l1 → StronglySorted R l2 → (∀ x y, x ∈ l1 → y ∈ l2 → R x y) → StronglySorted R (l1 ++ l2).
Proof.
  induction 1 as [|x l1 Hs IH Hx]; intros H2 Hc; [done|]. cbn. constructor.
  - apply IH; [done|]. intros a b Ha Hb. apply Hc; [by right|done].
  - apply Forall_app. split; [done|]. apply Forall_forall. intros y Hy. apply Hc; [by left|done].
Qed.

Lemma concat_opt_oks_in (f : entry → option (list event)) (l : list entry) : ∀ kids x,
  concat_opt (map f l) = Some kids → x ∈ oks kids → ∃ c evs, c ∈ l ∧ f c = Some evs ∧ x ∈ oks evs.
Proof.
  induction l as [|c l IH]; intros kids x Hc Hx; cbn [map concat_opt] in Hc; [simplify_eq; by apply elem_of_nil in Hx|].
  destruct (f c) as [evs|] eqn:Ef; [|done]. destruct (concat_opt _) as [kids'|] eqn:Ek; [|done]. simplify_eq.
  rewrite oks_app in Hx. apply elem_of_app in Hx as [Hx|Hx].
  - exists c, evs. split; [left|]. done.
  - destruct (IH kids' x eq_refl Hx) as (c' & evs' & Hc' & Hf & Hin). exists c', evs'. split; [by right|done].
Qed.

Lemma kids_sorted (f : entry → option (list event)) (Q : relation entry) (L : list entry) : StronglySorted Q L → ∀ kids,
  concat_opt (map f L) = Some kids →
  (∀ c evs, c ∈ L → f c = Some evs → StronglySorted plex (map e_path (oks evs))) →
  (∀ c c' evs evs' x y, Q c c' → c ∈ L → c' ∈ L → f c = Some evs → f c' = Some evs' → x ∈ oks evs → y ∈ oks evs' → plex (e_path x) (e_path y)) →
  StronglySorted plex (map e_path (oks kids)).
Proof.
  induction 1 as [|c L HS IH Hc]; intros kids Hk Hin Hcross; cbn [map concat_opt] in Hk; [simplify_eq; constructor|].
  destruct (f c) as [evs|] eqn:Ef; [|done]. destruct (concat_opt _) as [kids'|] eqn:Ek; [|done]. simplify_eq.
  rewrite oks_app, map_app. apply StronglySorted_app_2.
  - apply (Hin c); [left|done].
  - apply (IH kids' eq_refl).
    + intros c' evs' Hc' Hf. apply (Hin c'); [by right|done].
    + intros c1 c2 e1 e2 x y HQ H1 H2. apply Hcross; [done|by right|by right].
  - intros a b Ha Hb. apply elem_of_list_fmap in Ha as (x & -> & Hx). apply elem_of_list_fmap in Hb as (y & -> & Hy).
    destruct (concat_opt_oks_in _ _ _ _ Ek Hy) as (c' & evs' & Hc' & Hf' & Hy').
    rewrite Forall_forall in Hc. apply (Hcross c c' evs evs'); [by apply Hc|left|by right|done|done|done|done].
Qed.

(* sorted by name with distinct names: strictly sorted *)
Definition Q_ent (a b : entry) : Prop := R_ent a b ∧ file_name_of a ≠ file_name_of b.

Lemma sorted_strict (l : list entry) : StronglySorted R_ent l → NoDup (map file_name_of l) → StronglySorted Q_ent l.
Proof.
  induction 1 as [|x l HS IH Hx]; intros Hnd; [constructor|]. cbn [map] in Hnd. apply NoDup_cons in Hnd as [Hn Hnd].
  constructor; [by apply IH|]. apply Forall_forall. intros y Hy. split; [rewrite Forall_forall in Hx; by apply Hx|].
  intros Heq. apply Hn. rewrite Heq. apply elem_of_list_fmap. by exists y.
Qed.

(* ---- the traversal ---- *)
Definition plain_sorted (o : wopts) : Prop :=
  o_follow o = false ∧ o_sort o = true ∧ o_dirs_first o = false ∧ o_files_first o = false ∧ o_contents_first o = false.

Lemma sw_sorted h : ∀ m o pre stack e p evs, WF m → plain_sorted o → (∀ x, pre x = None) →
  m_ents m !! p = Some e → le_max (length stack) (o_max o) = true →
  sw h (m_ents m) o pre stack e = Some evs → StronglySorted plex (map e_path (oks evs)).
Proof.
  induction h as [|h IH]; intros m o pre stack e p evs HW Hpl Hpre He Hmax Hsw; [done|].
  destruct Hpl as (Hnf & Hso & Hdf & Hff & Hcf).
  destruct (sw_exact (S h) m o pre stack e p evs HW Hnf Hpre He Hmax Hsw) as [Hmem _].
  pose proof (wf_key m HW _ _ He) as Hp. rewrite sw_S in Hsw. cbn zeta in Hsw.
  rewrite (loops_nofollow o stack e Hnf), (enters_nofollow o e Hnf), Hpre in Hsw.
  set (d := length stack) in *.
  destruct (e_dir e && negb (e_link e) && lt_max d (o_max o)) eqn:Eent.
  - apply andb_true_iff in Eent as [Hrd Hlt].
    unfold children in Hsw. rewrite Hp, He, Hnf in Hsw.
    set (ns := match e_files e with Some fs => elements fs | None => [] end) in *.
    set (cs := child_entries (m_ents m) p false ns) in *.
    destruct (concat_opt _) as [kids|] eqn:Ek; [|done].
    assert (Harr : arrange o cs = sort_ents cs) by (unfold arrange; by rewrite Hso, Hdf, Hff).
    rewrite Harr in Ek.
    assert (Hns : NoDup ns) by (subst ns; destruct (e_files e); [apply NoDup_elements|constructor]).
    assert (Hcs : ∀ c, c ∈ sort_ents cs → ∃ n, n ∈ ns ∧ m_ents m !! (n :: p) = Some c)
      by (intros c Hc; rewrite sort_ents_perm in Hc; by apply child_entries_spec in Hc).
    assert (Hndp : NoDup (map e_path (sort_ents cs))) by (rewrite sort_ents_perm; apply child_entries_nodup; [by apply wf_key_ok|done]).
    assert (Hnames : NoDup (map file_name_of (sort_ents cs))).
    { assert (Heq : map file_name_of (sort_ents cs) = map head (map e_path (sort_ents cs))) by (by rewrite map_map).
      rewrite Heq. apply NoDup_fmap_2_strong; [|done].
      intros a b Ha Hb Hh. apply elem_of_list_fmap in Ha as (ca & -> & Hca). apply elem_of_list_fmap in Hb as (cb & -> & Hcb).
      destruct (Hcs ca Hca) as (na & _ & Hna). destruct (Hcs cb Hcb) as (nb & _ & Hnb).
      rewrite (wf_key m HW _ _ Hna), (wf_key m HW _ _ Hnb) in *. cbn in Hh. by simplify_eq. }
    assert (Hkids : StronglySorted plex (map e_path (oks kids))).
    { apply (kids_sorted (sw h (m_ents m) o pre (p :: stack)) Q_ent (sort_ents cs)); [apply sorted_strict; [apply sort_ents_sorted|done]|done| |].
      - intros c evs' Hc Hf. destruct (Hcs c Hc) as (n & _ & Hn).
        apply (IH m o pre (p :: stack) c (n :: p) evs' HW); [done|done|done|by apply le_max_S|done].
      - intros c c' e1 e2 x y [HR Hne] Hc Hc' Hf Hf' Hx Hy.
        destruct (Hcs c Hc) as (n & _ & Hn). destruct (Hcs c' Hc') as (n' & _ & Hn').
        destruct (sw_exact h m o pre (p :: stack) c (n :: p) e1 HW Hnf Hpre Hn (le_max_S _ _ Hlt)) as [Hm1 _]; [done|].
        destruct (sw_exact h m o pre (p :: stack) c' (n' :: p) e2 HW Hnf Hpre Hn' (le_max_S _ _ Hlt)) as [Hm2 _]; [done|].
        apply Hm1 in Hx as (q & Hq & Hs & _). apply Hm2 in Hy as (q' & Hq' & Hs' & _).
        rewrite (wf_key m HW _ _ Hq), (wf_key m HW _ _ Hq').
        unfold R_ent, ent_leb, file_name_of in HR, Hne. rewrite (wf_key m HW _ _ Hn), (wf_key m HW _ _ Hn') in HR, Hne. cbn in HR, Hne.
        apply (plex_diverge p n n'); [intros ->; done|done|done|done]. }
    assert (Hroot : ∀ y, y ∈ map e_path (oks kids) → plex (e_path e) y).
    { intros y Hy. apply elem_of_list_fmap in Hy as (x & -> & Hx).
      destruct (concat_opt_oks_in _ _ _ _ Ek Hx) as (c & evs' & Hc & Hf & Hx').
      destruct (Hcs c Hc) as (n & _ & Hn).
      destruct (sw_exact h m o pre (p :: stack) c (n :: p) evs' HW Hnf Hpre Hn (le_max_S _ _ Hlt)) as [Hm1 _]; [done|].
      destruct (proj1 (Hm1 x) Hx') as (q & Hq & Hs & Hrest). rewrite (wf_key m HW _ _ Hq), Hp. apply plex_under. by eapply suffix_cons_l. }
    rewrite Hcf, andb_false_r in Hsw.
    destruct (selected o d e); simplify_eq.
    + rewrite oks_pre, oks_ok. cbn [map]. constructor; [done|]. apply Forall_forall. exact Hroot.
    + by rewrite oks_pre.
  - destruct (selected o d e); simplify_eq; cbn; repeat constructor.
Qed.

(* C08: a sorted traversal without follow, dirs_first, files_first or contents_first yields its paths in strictly increasing
   lexicographic order *)
Theorem walk_sorted m o pre rootp r evs : WF m → plain_sorted o → (∀ x, pre x = None) → m_ents m !! rootp = Some r →
  walk (m_ents m) o pre rootp = inl (Done evs) → StronglySorted plex (map e_path (oks evs)).
Proof.
  intros HW Hpl Hpre Hr Hw. destruct (walk_nofollow (m_ents m) o pre rootp r (wf_key_ok m HW) (proj1 Hpl) Hr) as (h & evs' & Hsw & Hw').
  rewrite Hw in Hw'. simplify_eq. unfold sw_walk in Hsw. rewrite (proj1 Hpl) in Hsw.
  assert (Hm : le_max (length (@nil rpath)) (o_max o) = true) by (destruct (o_max o); done).
  exact (sw_sorted h m o pre [] r rootp evs' HW Hpl Hpre Hr Hm Hsw).
Qed.

(* a list of paths in that order is determined by its elements *)
Lemma plex_sorted_unique (l1 l2 : list rpath) : StronglySorted plex l1 → StronglySorted plex l2 → NoDup l1 → NoDup l2 →
  (∀ q, q ∈ l1 ↔ q ∈ l2) → l1 = l2.
Proof. intros H1 H2 N1 N2 Hiff. apply (StronglySorted_unique plex); [done|done|]. by apply NoDup_Permutation. Qed.

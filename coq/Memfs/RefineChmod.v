(* Memfs/RefineChmod.v — chmod with octal modes and without follow refines the reference tree filesystem (C01, C11):
   every non-link node at or below the argument (the argument alone without recursion) gets the mode given for its kind,
   nothing else changes.  The value 0 for a kind means "no mode given" in the builder (KF-C11-octal-zero) and symbolic
   modes depend on the grammar; the reference covers the calls where both octal values are given. *)
From stdpp Require Import gmap.
From Coq Require Import NArith.
From RV Require Import Base.Str Path.Helpers Path.Expand Chmod.Sym Memfs.State Memfs.Ops Memfs.Walk Memfs.WalkOps Memfs.Wf Memfs.Spec Memfs.Refine
  Memfs.ChmodExact Gen.Consts.

Definition with_mode (n : node) (v bits : N) : node :=
  if N.eqb v (n_mode n) then n else mkNode (n_kind n) (N.lor v bits) (n_uid n) (n_gid n) (n_data n) (n_target n) (n_rel n) (n_tdir n).

Definition node_chmod (dirs files : N) (n : node) : node :=
  match n_kind n with
  | KLink => n
  | KDir => with_mode n dirs c_type_bits_dir
  | KFile => with_mode n files c_type_bits_file
  end.

Definition spec_chmod (t : tree) (p : rpath) (rec : bool) (dirs files : N) : tree :=
  mkTree (t_cwd t) (map_imap (λ q n, Some (if bool_decide (p `suffix_of` q ∧ (rec = true ∨ q = p)) then node_chmod dirs files n else n)) (t_nodes t)).

Lemma node_of_upd o x d : kind_ok x → ch_sym o = [] → ch_dirs o ≠ 0%N → ch_files o ≠ 0%N →
  node_of (upd o x) d = node_chmod (ch_dirs o) (ch_files o) (node_of x d).
Proof.
  intros Hk Hs Hd Hf. unfold upd, valof, mode_for, sym_mode, node_chmod, with_mode, node_of, kind_of_entry, kind_ok in *. cbn [n_kind n_mode].
  destruct (e_link x) eqn:El; [by rewrite El|].
  apply N.eqb_neq in Hd, Hf. rewrite Hd, Hf. cbn [negb].
  destruct (e_dir x) eqn:Ed.
  - destruct (N.eqb (ch_dirs o) (e_mode x)) eqn:E; [by rewrite El, Ed|].
    cbn. rewrite El, Ed. symmetry in Hk. apply negb_true_iff in Hk. rewrite Hk. unfold opts_mode. done.
  - assert (Hfile : e_file x = true) by (symmetry in Hk; by apply negb_false_iff in Hk). rewrite Hfile.
    destruct (N.eqb (ch_files o) (e_mode x)) eqn:E; [by rewrite El, Ed|].
    cbn. rewrite El, Ed, Hfile. done.
Qed.

Theorem chmod_refines env m s o p r : WF m → kinds_ok m → ch_follow o = false → ch_sym o = [] → ch_dirs o ≠ 0%N → ch_files o ≠ 0%N →
  resolve env m s = inl p → m_ents m !! p = Some r →
  ∃ m', chmod_op env m s o = Done (m', inl tt) ∧ abs m' = spec_chmod (abs m) p (ch_recursive o) (ch_dirs o) (ch_files o).
Proof.
  intros HW HK Hnf Hs Hd Hf Hres Hr.
  assert (Hmf : ∀ x, mode_for x (ch_dirs o) (ch_sym o) = inl (ch_dirs o)).
  { intros x. unfold mode_for, sym_mode. apply N.eqb_neq in Hd. by rewrite Hd. }
  assert (Hmf' : ∀ x, mode_for x (ch_files o) (ch_sym o) = inl (ch_files o)).
  { intros x. unfold mode_for, sym_mode. apply N.eqb_neq in Hf. by rewrite Hf. }
  destruct (chmod_nofollow_exact env m s o p r HW Hnf Hres Hr) as (m' & Hop & Hlk & Hdat & Hc & _).
  - intros x. unfold chmod_pre_check. by rewrite Hmf.
  - intros q x Hx. unfold valof. rewrite Hmf, Hmf'. pose proof (HK _ _ Hx) as Hk. unfold kind_ok in Hk.
    destruct (e_dir x); [by exists (ch_dirs o)|]. symmetry in Hk. apply negb_false_iff in Hk. rewrite Hk. by exists (ch_files o).
  - exists m'. split; [done|]. apply tree_eq; [done|]. intros q. cbn [spec_chmod t_nodes]. rewrite map_lookup_imap, !lookup_abs, Hlk, Hdat.
    case_bool_decide; destruct (m_ents m !! q) as [x|] eqn:Hx; cbn; try done.
    f_equal. apply node_of_upd; try done. exact (HK _ _ Hx).
Qed.

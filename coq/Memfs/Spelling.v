(* Memfs/Spelling.v — C05, last clause: every method reads its path arguments through the same resolution, so a call with
   any spelling of a path behaves exactly like the call with abs(path).  For every call of the alphabet and every state
   whose working directory consists of proper names: replacing each path argument by the string abs returns for it (when
   abs succeeds and the result contains no '~' or '$', which would be expanded again) changes neither the result nor the
   state afterwards.  The target of symlink is not such an argument: it is read relative to the link's directory. *)
From stdpp Require Import gmap.
From Coq Require Import NArith.
From RV Require Import Base.Str Base.PathLex Base.PathLexFacts Path.Helpers Path.Expand Path.Abs Path.AbsFacts Memfs.State Memfs.Ops Memfs.Walk Memfs.WalkOps Memfs.Step
  Memfs.CopyFile.

Definition plain_b (r : list N) : bool := forallb (fun c => negb (N.eqb c tilde) && negb (N.eqb c dollar)) r.

Lemma plain_b_spec r : plain_b r = true → ¬ In tilde r ∧ ¬ In dollar r.
Proof.
  unfold plain_b. rewrite forallb_forall. intros H. split; intros Hin; apply H in Hin; apply andb_true_iff in Hin as [H1 H2];
    [apply negb_true_iff, N.eqb_neq in H1|apply negb_true_iff, N.eqb_neq in H2]; done.
Qed.

(* the string abs returns, when it can stand in for the argument *)
Definition abs_str (env : envmap) (m : mfs) (s : list N) : list N :=
  match Abs.abs (render_rpath (m_cwd m)) env s with
  | inl r => if plain_b r then r else s
  | inr _ => s
  end.

Lemma resolve_abs_str env m s : names_ok (m_cwd m) → resolve env m (abs_str env m s) = resolve env m s.
Proof.
  intros Hc. unfold abs_str. destruct (Abs.abs (render_rpath (m_cwd m)) env s) as [r|e] eqn:E; [|done].
  destruct (plain_b r) eqn:Hp; [|done]. apply plain_b_spec in Hp as [Ht Hd].
  unfold resolve. rewrite E. unfold render_rpath in *.
  assert (Hn : List.Forall is_name (rev (m_cwd m))) by (apply List.Forall_rev; exact Hc).
  by rewrite (abs_idem _ _ env s r Hn Hn E Ht Hd).
Qed.

Definition respell (env : envmap) (m : mfs) (o : op) : op :=
  let f := abs_str env m in
  match o with
  | OAbs s => OAbs (f s) | OExists s => OExists (f s) | OIsDir s => OIsDir (f s) | OIsFile s => OIsFile (f s) | OIsSymlink s => OIsSymlink (f s)
  | OIsSymlinkDir s => OIsSymlinkDir (f s) | OIsSymlinkFile s => OIsSymlinkFile (f s) | OIsExec s => OIsExec (f s) | OIsReadonly s => OIsReadonly (f s)
  | OMode s => OMode (f s) | OOwner s => OOwner (f s) | OUid s => OUid (f s) | OGid s => OGid (f s)
  | OCwd => OCwd | ORoot => ORoot | OSetCwd s => OSetCwd (f s)
  | OMkfile s => OMkfile (f s) | OMkdirP s => OMkdirP (f s) | OMkdirM s mode => OMkdirM (f s) mode
  | OWriteAll s d => OWriteAll (f s) d | OWriteLines s ls => OWriteLines (f s) ls
  | OAppendAll s d => OAppendAll (f s) d | OAppendLine s l => OAppendLine (f s) l | OAppendLines s ls => OAppendLines (f s) ls
  | OReadAll s => OReadAll (f s) | OReadLines s => OReadLines (f s)
  | ORemove s => ORemove (f s) | ORemoveAll s => ORemoveAll (f s)
  | OSymlink l t => OSymlink (f l) t | OReadlink s => OReadlink (f s) | OReadlinkAbs s => OReadlinkAbs (f s)
  | OMoveP s d => OMoveP (f s) (f d)
  | OList k s => OList k (f s)
  | OEntries s wo => OEntries (f s) wo
  | OCopy s d co => OCopy (f s) (f d) co
  | OChmod s co => OChmod (f s) co
  | OChown s co => OChown (f s) co
  | OMkfileM s mode => OMkfileM (f s) mode
  end.

Theorem spelling_independent env m o : names_ok (m_cwd m) → step env m (respell env m o) = step env m o.
Proof.
  intros Hc. pose proof (resolve_abs_str env m) as R.
  destruct o; cbn [respell step]; unfold query_bool, query_entry, set_cwd_op, write_all_op, append_all_op, clone_file, remove_op, remove_all_op,
    symlink_op, move_op, move_validate, listing_op, copy_op, chmod_op, chown_op; rewrite ?R by done; try reflexivity.
Qed.

(* in every state a history reaches from the fresh filesystem *)
From RV Require Import Memfs.Wf Memfs.WfMore Memfs.CwdInv.

Corollary spelling_independent_reachable env os m o : run_ops env mfs_init os = Some m → step env m (respell env m o) = step env m o.
Proof. intros Hr. apply spelling_independent. exact (proj1 (reachable_cwd env os mfs_init m cwd_init Hr)). Qed.

(* the re-spelled call really is another call: "x/../b//" read from /a becomes "/a/b" *)
Example respell_nonvacuous :
  match run_ops (fun _ => None) mfs_init [OMkdirP [47; 97]%N; OSetCwd [47; 97]%N] with
  | Some m => match respell (fun _ => None) m (OMkdirP [120; 47; 46; 46; 47; 98; 47; 47]%N) with
              | OMkdirP s => str_eqb s [47; 97; 47; 98]%N
              | _ => false
              end
  | None => false
  end = true.
Proof. vm_compute. reflexivity. Qed.

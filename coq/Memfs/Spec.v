(* Memfs/Spec.v — C01: a plain reference tree filesystem, written from the trait documentation.
   The reference state is one flat map from absolute paths to nodes plus the working directory; there are no
   per-directory child lists and no separate data index: "p is a child of d" MEANS "p exists and its parent path is
   d". Calls take the already resolved absolute path (resolution is abs, C05). *)
From stdpp Require Import gmap.
From Coq Require Import NArith.
From RV Require Import Base.Str Path.Helpers Memfs.State.

Inductive nkind := KDir | KFile | KLink.

Record node := mkNode {
  n_kind : nkind;
  n_mode : N; n_uid : N; n_gid : N;
  n_data : list N;                       (* byte content of a regular file; [] otherwise *)
  n_target : option rpath;               (* what a link points to *)
  n_rel : list N;                        (* ... as the link stores it *)
  n_tdir : bool                          (* a link remembers whether its target was a directory when it was made *)
}.

Record tree := mkTree { t_cwd : rpath; t_nodes : gmap (list (list N)) node }.

Definition t_is_dir (t : tree) (p : rpath) : bool :=
  match t_nodes t !! p with Some n => match n_kind n with KDir => true | _ => false end | None => false end.

(* has p a child?  (a directory "contains files"): some existing path has p as its parent path *)
Definition child_of (p : rpath) (q : rpath) : Prop := match q with _ :: d => d = p | [] => False end.
Global Instance child_of_dec p q : Decision (child_of p q).
Proof. destruct q; cbn; apply _. Defined.
Definition t_has_child (t : tree) (p : rpath) : bool :=
  bool_decide (map_Exists (λ q _, child_of p q) (t_nodes t)).

Definition file_node (mode uid gid : N) (d : list N) : node := mkNode KFile mode uid gid d None [] false.

(* mkfile: the parent must be an existing directory; an existing regular file is left alone *)
Definition spec_mkfile (t : tree) (p : rpath) (mode uid gid : N) : tree * (rpath + errkind) :=
  match p with
  | [] => (t, inr EIsNotFile)
  | _ :: d =>
      match t_nodes t !! d with
      | None => (t, inr EDoesNotExist)
      | Some pn =>
          match n_kind pn with
          | KDir =>
              match t_nodes t !! p with
              | Some n => match n_kind n with KFile => (t, inl p) | _ => (t, inr EIsNotFile) end
              | None => (mkTree (t_cwd t) (<[p := file_node mode uid gid []]> (t_nodes t)), inl p)
              end
          | _ => (t, inr EIsNotDir)
          end
      end
  end.

(* write_all: mkfile, then the whole content is replaced *)
Definition spec_write_all (t : tree) (p : rpath) (mode uid gid : N) (d : list N) : tree * (unit + errkind) :=
  match spec_mkfile t p mode uid gid with
  | (t', inr e) => (t', inr e)
  | (t', inl _) =>
      match t_nodes t' !! p with
      | Some n => (mkTree (t_cwd t') (<[p := mkNode (n_kind n) (n_mode n) (n_uid n) (n_gid n) d (n_target n) (n_rel n) (n_tdir n)]> (t_nodes t')), inl tt)
      | None => (t', inl tt)
      end
  end.

(* append_all: mkfile, then the content grows at the end *)
Definition spec_append_all (t : tree) (p : rpath) (mode uid gid : N) (d : list N) : tree * (unit + errkind) :=
  match spec_mkfile t p mode uid gid with
  | (t', inr e) => (t', inr e)
  | (t', inl _) =>
      match t_nodes t' !! p with
      | Some n => (mkTree (t_cwd t') (<[p := mkNode (n_kind n) (n_mode n) (n_uid n) (n_gid n) (n_data n ++ d) (n_target n) (n_rel n) (n_tdir n)]> (t_nodes t')), inl tt)
      | None => (t', inr EDoesNotExist)
      end
  end.

(* read_all's byte level: the content of a regular file *)
Definition spec_read (t : tree) (p : rpath) : list N + errkind :=
  match t_nodes t !! p with
  | Some n => match n_kind n with KFile => inl (n_data n) | KDir => inr EIsNotFile | KLink => if n_tdir n then inr EIsNotFile else inr EDoesNotExist end
  | None => inr EDoesNotExist
  end.

(* set_cwd: an existing directory, or a link to one (then the target becomes the working directory) *)
Definition spec_set_cwd (t : tree) (p : rpath) : tree * (rpath + errkind) :=
  match t_nodes t !! p with
  | None => (t, inr EDoesNotExist)
  | Some n =>
      match n_kind n with
      | KDir => (mkTree p (t_nodes t), inl p)
      | KLink => if n_tdir n then (mkTree (match n_target n with Some x => x | None => [] end) (t_nodes t), inl p) else (t, inr EIsNotDir)
      | KFile => (t, inr EIsNotDir)
      end
  end.

(* remove: a missing path is fine; a directory that still has children is refused; the root has no parent to be removed from *)
Definition spec_remove (t : tree) (p : rpath) : tree * (unit + errkind) :=
  match t_nodes t !! p with
  | None => (t, inl tt)
  | Some _ =>
      if t_has_child t p then (t, inr EDirContainsFiles)
      else match p with
           | [] => (t, inr EParentNotFound)
           | _ :: _ => (mkTree (t_cwd t) (delete p (t_nodes t)), inl tt)
           end
  end.

(* remove_all: the whole subtree at p goes, a missing path is fine. (On the root the real code empties the tree and then
   reports the root's missing parent; the theorem about this call is stated for every other path.) *)
Definition spec_remove_all (t : tree) (p : rpath) : tree * (unit + errkind) :=
  (mkTree (t_cwd t) (filter (λ kv, ¬ p `suffix_of` kv.1) (t_nodes t)), inl tt).

(* queries *)
Definition spec_exists (t : tree) (p : rpath) : bool := bool_decide (is_Some (t_nodes t !! p)).
Definition spec_is_dir (t : tree) (p : rpath) : bool := t_is_dir t p.
Definition spec_is_file (t : tree) (p : rpath) : bool :=
  match t_nodes t !! p with Some n => match n_kind n with KFile => true | _ => false end | None => false end.
Definition spec_is_symlink (t : tree) (p : rpath) : bool :=
  match t_nodes t !! p with Some n => match n_kind n with KLink => true | _ => false end | None => false end.

(* mkdir for one path whose parent is there: an existing directory is left alone *)
Definition dir_node (mode uid gid : N) : node := mkNode KDir mode uid gid [] None [] false.

Definition spec_mkdir1 (t : tree) (p : rpath) (mode uid gid : N) : tree * (rpath + errkind) :=
  match p with
  | [] => (t, inl [])
  | _ :: d =>
      match t_nodes t !! d with
      | None => (t, inr EDoesNotExist)
      | Some pn =>
          match n_kind pn with
          | KDir =>
              match t_nodes t !! p with
              | Some n => match n_kind n with KDir => (t, inl p) | _ => (t, inr EIsNotDir) end
              | None => (mkTree (t_cwd t) (<[p := dir_node mode uid gid]> (t_nodes t)), inl p)
              end
          | _ => (t, inr EIsNotDir)
          end
      end
  end.

(* mkdir_p / mkdir_m: every missing ancestor is created, shortest first, with the same mode; the first failure stops it *)
Fixpoint spec_mkdirs (t : tree) (ps : list rpath) (mode uid gid : N) : tree * (unit + errkind) :=
  match ps with
  | [] => (t, inl tt)
  | p :: rest => match spec_mkdir1 t p mode uid gid with
                 | (t', inl _) => spec_mkdirs t' rest mode uid gid
                 | (t', inr e) => (t', inr e)
                 end
  end.

(* symlink for one resolved link path and target: a link is only ever created *)
Definition link_node (mode uid gid : N) (target : rpath) (rel : list N) (tdir : bool) : node :=
  mkNode KLink mode uid gid [] (Some target) rel tdir.

Definition spec_symlink (t : tree) (lp tp : rpath) (mode uid gid : N) (rel : list N) : tree * (rpath + errkind) :=
  match t_nodes t !! lp with
  | Some _ => (t, inr EExistsAlready)
  | None =>
      match lp with
      | [] => (t, inr EParentNotFound)
      | _ :: d =>
          match t_nodes t !! d with
          | None => (t, inr EDoesNotExist)
          | Some pn =>
              match n_kind pn with
              | KDir => (mkTree (t_cwd t) (<[lp := link_node mode uid gid tp rel
                                                    (match t_nodes t !! tp with Some n => match n_kind n with KDir => true | KLink => n_tdir n | KFile => false end | None => false end)]>
                                           (t_nodes t)), inl lp)
              | _ => (t, inr EIsNotDir)
              end
          end
      end
  end.

(* Memfs/Names.v — every path the entries index is keyed by consists of proper path names (non-empty, no separator, not
   "." or ".."): an invariant of every call, because every key comes out of resolve (or is a prefix of such a path, or a
   re-rooted existing key). It discharges the hypothesis of the directory-copy theorem for every reachable state. *)
From stdpp Require Import gmap.
From Coq Require Import NArith.
From RV Require Import Base.Str Base.PathLex Base.PathLexFacts Path.Helpers Path.Expand Chmod.Sym Memfs.State Memfs.Ops Memfs.Walk Memfs.WalkOps Memfs.Step
  Memfs.Wf Memfs.WfMore Memfs.WfMove Memfs.MoveFacts Memfs.CopyFile.

Definition keys_ok (m : mfs) : Prop := ∀ q, is_Some (m_ents m !! q) → names_ok q.

Lemma names_ok_tail n d : names_ok (n :: d) → names_ok d.
Proof. unfold names_ok. intros H. by inversion H. Qed.

Lemma names_ok_app j p : names_ok (j ++ p) ↔ names_ok j ∧ names_ok p.
Proof. unfold names_ok. apply List.Forall_app. Qed.

Lemma keys_insert m p e : keys_ok m → names_ok p → keys_ok (upd_ents m (insert p e)).
Proof.
  intros HK Hp q Hq. cbn in Hq. destruct (decide (q = p)) as [->|Hn]; [done|]. rewrite lookup_insert_ne in Hq by done. by apply HK.
Qed.
Lemma keys_insert_existing m p e : keys_ok m → is_Some (m_ents m !! p) → keys_ok (upd_ents m (insert p e)).
Proof. intros HK Hp. apply keys_insert; [done|by apply HK]. Qed.
Lemma keys_delete m p : keys_ok m → keys_ok (upd_ents m (delete p)).
Proof. intros HK q Hq. cbn in Hq. destruct Hq as [x Hq]. apply lookup_delete_Some in Hq as [_ Hq]. apply HK. eauto. Qed.
Lemma keys_data m f : keys_ok m → keys_ok (upd_data m f).
Proof. intros HK q Hq. by apply HK. Qed.

Lemma add_keys m e : keys_ok m → names_ok (e_path e) → keys_ok (add m e).1.
Proof.
  intros HK He. unfold add. destruct (e_path e) as [|base dir] eqn:Hp; [by destruct (e_file e)|].
  destruct (m_ents m !! dir) as [pe|] eqn:Hpe; [|done].
  destruct (negb (e_dir pe) || e_link pe); [done|].
  destruct (m_ents m !! (base :: dir)) as [x|] eqn:Hx; [repeat case_match; done|].
  set (m1 := if negb (e_link e) && e_file e then _ else m).
  assert (HK1 : keys_ok m1) by (unfold m1; destruct (_ && _); [by apply keys_data | done]).
  pose proof (keys_insert m1 (base :: dir) e HK1 He) as HK2.
  destruct (m_ents (upd_ents m1 (insert (base :: dir) e)) !! dir) as [parent|] eqn:Hp2; [|exact HK2].
  destruct (entry_add parent base) as [pe' fr] eqn:Ea.
  assert (keys_ok (upd_ents (upd_ents m1 (insert (base :: dir) e)) (insert dir pe'))) by (apply keys_insert_existing; eauto).
  by destruct fr.
Qed.

Lemma prefixes_names ns : ∀ acc p, List.Forall is_name ns → names_ok acc → p ∈ prefixes ns acc → names_ok p.
Proof.
  induction ns as [|n ns IH]; intros acc p Hns Ha Hp; cbn [prefixes] in Hp; [by apply elem_of_nil in Hp|].
  inversion Hns; subst. apply elem_of_cons in Hp as [->|Hp]; [by constructor|]. eapply IH; [done| |exact Hp]. by constructor.
Qed.

Lemma mkdir_loop_keys ps : ∀ m md, keys_ok m → (∀ p, p ∈ ps → names_ok p) → keys_ok (mkdir_loop m ps md).1.
Proof.
  induction ps as [|p ps IH]; intros m md HK Hps; cbn [mkdir_loop]; [done|].
  pose proof (add_keys m (new_dir p md) HK (Hps p ltac:(left))) as H.
  destruct (add m (new_dir p md)) as [m' [q|e]]; cbn [fst] in *; [|done]. apply IH; [done|]. intros; apply Hps; by right.
Qed.

Lemma mkdir_m_abs_keys m p md : keys_ok m → names_ok p → keys_ok (mkdir_m_abs m p md).1.
Proof.
  intros HK Hp. unfold mkdir_m_abs. pose proof (add_keys m (new_dir [] md) HK ltac:(constructor)) as H.
  destruct (add m (new_dir [] md)) as [m0 [r|e]]; cbn [fst] in *; [|exact H]. apply mkdir_loop_keys; [done|].
  intros q Hq. eapply prefixes_names; [|constructor|exact Hq]. by apply List.Forall_rev.
Qed.

Lemma symlink_keys env m l t : keys_ok m → keys_ok (symlink_op env m l t).1.
Proof.
  intros HK. unfold symlink_op. destruct (resolve env m l) as [lp|e] eqn:Hl; [|done].
  destruct (if is_absolute t then _ else _) as [t'|e]; [|done].
  destruct (resolve env m t') as [tp|e]; [|done]. case_bool_decide; [done|].
  destruct lp as [|b d]; [done|]. apply add_keys; [done|]. exact (resolve_names_ok env m l _ Hl).
Qed.

Lemma write_all_keys env m s d : keys_ok m → keys_ok (write_all_op env m s d).1.
Proof.
  intros HK. unfold write_all_op. destruct (resolve env m s) as [p|e] eqn:Hs; [|done].
  pose proof (add_keys m (new_file p) HK (resolve_names_ok env m s _ Hs)) as H.
  destruct (add m (new_file p)) as [m' [r|e]]; cbn [fst] in *; [|done]. destruct (m_data m' !! p); [by apply keys_data | done].
Qed.

Lemma append_all_keys env m s d : keys_ok m → keys_ok (append_all_op env m s d).1.
Proof.
  intros HK. unfold append_all_op. destruct (resolve env m s) as [p|e] eqn:Hs; [|done].
  pose proof (add_keys m (new_file p) HK (resolve_names_ok env m s _ Hs)) as H.
  destruct (add m (new_file p)) as [m' [r|e]]; cbn [fst] in *; [|done]. destruct (m_data m' !! p); [by apply keys_data | done].
Qed.

Lemma set_cwd_keys env m s : keys_ok m → keys_ok (set_cwd_op env m s).1.
Proof. intros HK. unfold set_cwd_op. repeat case_match; cbn [fst]; try done; intros q Hq; by apply HK. Qed.

Lemma remove_keys env m s : keys_ok m → keys_ok (remove_op env m s).1.
Proof.
  intros HK. unfold remove_op. destruct (resolve env m s) as [p|e]; [|done].
  destruct (negb _); [done|]. destruct (match m_ents m !! p with Some e => _ | None => false end); [done|].
  destruct p as [|base dir]; [done|].
  destruct (m_ents m !! dir) as [pe|] eqn:Hpe.
  - destruct (e_dir pe); [|done]. cbn [fst]. apply keys_delete.
    assert (keys_ok (upd_ents m (insert dir (entry_remove pe base)))) by (apply keys_insert_existing; eauto).
    repeat case_match; [by apply keys_data | done | done].
  - cbn [fst]. apply keys_delete. repeat case_match; [by apply keys_data | done | done].
Qed.

Lemma remove_all_loop_keys fuel : ∀ m paths r, keys_ok m → remove_all_loop fuel m paths = Done r → keys_ok r.1.
Proof.
  induction fuel as [|f IH]; intros m paths r HK; cbn [remove_all_loop]; [discriminate|].
  destruct paths as [|p rest]; [intros H; by simplify_eq|].
  destruct (m_ents m !! p) as [e|] eqn:He; [|by apply IH].
  destruct (match e_files e with Some fs => elements fs | None => [] end) as [|k ks] eqn:Hk; [|by apply IH].
  destruct p as [|base dir]; [intros H; by simplify_eq|].
  destruct (m_ents m !! dir) as [pe|] eqn:Hpe.
  - destruct (e_dir pe); [|intros H; by simplify_eq]. apply IH. apply keys_delete, keys_data. apply keys_insert_existing; eauto.
  - apply IH. by apply keys_delete, keys_data.
Qed.

Lemma set_mode_at_keys m p md : keys_ok m → keys_ok (set_mode_at m p md).
Proof. intros HK. unfold set_mode_at. destruct (m_ents m !! p) as [x|] eqn:E; [|done]. apply keys_insert_existing; eauto. Qed.

Lemma chmod_events_keys o evs : ∀ m, keys_ok m → keys_ok (chmod_events o m evs).1.
Proof.
  induction evs as [|ev evs IH]; intros m HK; cbn [chmod_events]; [done|].
  destruct ev as [x|[src|w]]; [| |done].
  - apply IH. unfold chmod_pre_apply. repeat case_match; try done; by apply set_mode_at_keys.
  - assert (H : keys_ok (chmod_item_apply o m src).1) by (unfold chmod_item_apply; repeat case_match; cbn [fst]; try done; by apply set_mode_at_keys).
    destruct (chmod_item_apply o m src) as [m' [e|]]; cbn [fst] in *; [done | by apply IH].
Qed.

Lemma chmod_op_keys env m s o r : keys_ok m → chmod_op env m s o = Done r → keys_ok r.1.
Proof.
  intros HK. unfold chmod_op. destruct (resolve env m s) as [p|e]; [|intros H; by simplify_eq].
  destruct (walk _ _ _ p) as [[evs| |]|e]; intros H; simplify_eq; cbn [fst]; try done. by apply chmod_events_keys.
Qed.

Lemma chown_op_keys env m s o r : keys_ok m → chown_op env m s o = Done r → keys_ok r.1.
Proof.
  intros HK. unfold chown_op. destruct (resolve env m s) as [p|e]; [|intros H; by simplify_eq].
  destruct (walk _ _ _ p) as [[evs| |]|e]; try (intros H; simplify_eq; cbn [fst]; exact HK); try discriminate.
  destruct (oks_until_err (items_of evs)) as [es err]. intros H. simplify_eq. cbn [fst].
  clear -HK. revert m HK. induction es as [|e es IH]; intros m HK; cbn [fold_left]; [done|]. apply IH.
  destruct (m_ents m !! e_path e) as [x|] eqn:E; [|done]. apply keys_insert_existing; eauto.
Qed.

Lemma copy_dst_names dr q pre : names_ok (copy_dst dr q pre).
Proof. unfold copy_dst, rp_of_string, names_ok. apply List.Forall_rev. apply names_of_ok. Qed.

Lemma copy_one_keys env o dm fm m dst src : keys_ok m → names_ok dst → keys_ok (copy_one env o dm fm m dst src).1.
Proof.
  intros HK Hdst. unfold copy_one. destruct (negb (cp_follow o) && e_link src).
  - pose proof (symlink_keys env m (render_rpath dst) (match e_alt src with Some a => render_rpath a | None => [] end) HK) as H.
    destruct (symlink_op env m _ _) as [m' [p|e]]; exact H.
  - unfold clone_entry. destruct (m_ents m !! e_path src) as [s|] eqn:Hs; [|done].
    destruct (e_dir s) eqn:Hsd; [by apply mkdir_m_abs_keys|].
    destruct dst as [|db ddir]; [done|].
    assert (Hrest : ∀ m1, keys_ok m1 → keys_ok (copy_file_rest fm (db :: ddir) s m1).1).
    { intros m1 HK1. unfold copy_file_rest.
      pose proof (add_keys m1 (set_mode (set_path s (db :: ddir)) (orelse fm (Some (e_mode s)))) HK1 Hdst) as Ha.
      destruct (add m1 _) as [m2a [p|e]]; cbn [fst] in *; [|done].
      assert (keys_ok (match fm with Some md => set_mode_at m2a (db :: ddir) md | None => m2a end)) by (destruct fm; [by apply set_mode_at_keys | done]).
      repeat case_match; cbn [fst]; try done; by apply keys_data. }
    pose proof (names_ok_tail _ _ Hdst) as Hdd.
    destruct (m_ents m !! ddir); [exact (Hrest m HK)|].
    destruct dm as [x|].
    + pose proof (mkdir_m_abs_keys m ddir (Some x) HK Hdd) as H. destruct (mkdir_m_abs m ddir (Some x)) as [m1 [u|e]]; cbn [fst] in *; [exact (Hrest m1 H) | done].
    + destruct (e_path s) as [|sb sdir] eqn:Hps; [done|]. unfold clone_entry. destruct (m_ents m !! sdir) as [pe|]; [|done].
      pose proof (mkdir_m_abs_keys m ddir (Some (e_mode pe)) HK Hdd) as H. destruct (mkdir_m_abs m ddir (Some (e_mode pe))) as [m1 [u|e]]; cbn [fst] in *; [|done].
      rewrite <- Hps. exact (Hrest m1 H).
Qed.

Lemma copy_loop_keys env o dm fm ci dr sr is : ∀ m, keys_ok m → keys_ok (copy_loop env o dm fm ci dr sr m is).1.
Proof.
  induction is as [|it is IH]; intros m HK; cbn [copy_loop]; [done|].
  destruct it as [src|w]; [|done]. destruct (if ci then _ else _) as [prefix|e]; [|done].
  case_bool_decide; [by apply IH|].
  pose proof (copy_one_keys env o dm fm m (copy_dst dr (e_path src) prefix) src HK (copy_dst_names _ _ _)) as Hc.
  destruct (copy_one env o dm fm m _ src) as [m' [u|e]]; cbn [fst] in *; [by apply IH | done].
Qed.

Lemma copy_op_keys env m s d o r : keys_ok m → copy_op env m s d o = Done r → keys_ok r.1.
Proof.
  intros HK. unfold copy_op. destruct (resolve env m s) as [sp|e]; [|intros H; by simplify_eq].
  destruct (resolve env m d) as [dp|e]; [|intros H; by simplify_eq].
  case_bool_decide; [intros Hq; by simplify_eq|].
  destruct (clone_entry m sp) as [re|e]; [|intros Hq; by simplify_eq].
  destruct (walk _ _ _ _) as [[evs| |]|e]; intros Hq; simplify_eq; cbn [fst]; try done. by apply copy_loop_keys.
Qed.

(* move_p: a key of the result is an old key, the destination, or an old key re-rooted under the destination *)
Lemma move_go_names env m s d sp dt : keys_ok m → move_validate env m s d = MvGo sp dt → names_ok dt.
Proof.
  intros HK. unfold move_validate. destruct (resolve env m s) as [sp0|e] eqn:Hs; [|done].
  destruct (resolve env m d) as [dp|e] eqn:Hd; [|done].
  pose proof (resolve_names_ok env m s _ Hs) as Hns. pose proof (resolve_names_ok env m d _ Hd) as Hnd.
  destruct (m_ents m !! sp0); [|done].
  set (dt0 := if is_dir_at m dp then _ else dp).
  assert (Hdt0 : names_ok dt0).
  { unfold dt0. destruct (is_dir_at m dp); [|done]. destruct sp0 as [|b sp']; [done|]. unfold names_ok in *. inversion Hns; subst. by constructor. }
  case_bool_decide; [done|]. destruct dt0 as [|b0 ddir] eqn:Edt; [done|].
  repeat case_match; try done. all: intros Hgo; by simplify_eq.
Qed.

Lemma move_op_keys env m s d m' r : WF m → keys_ok m → move_op env m s d = Done (m', r) → keys_ok m'.
Proof.
  intros HW HK Hm. destruct (move_validate env m s d) as [e| |sp dt0] eqn:Ev.
  - unfold move_op in Hm. rewrite Ev in Hm. by simplify_eq.
  - unfold move_op in Hm. rewrite Ev in Hm. by simplify_eq.
  - pose proof (move_go_names env m s d _ _ HK Ev) as Hdt.
    destruct (move_go_facts env m s d _ _ Ev) as (_ & _ & Hu & b & ddir & x0 & -> & _).
    destruct sp as [|sb sd].
    { exfalso. assert (is_under (b :: ddir) [] = true) as Ht by (apply is_under_spec, suffix_nil). congruence. }
    destruct (move_op_spec env m s d sb sd b ddir m' r HW Ev Hm) as (se & op & x & Hse & Hop & Hx & Hxr & _ & He & _).
    intros q [e' Hq]. rewrite He in Hq. unfold Fe in Hq.
    destruct (decide (q = b :: ddir)) as [->|Hk1]; [done|].
    destruct (decide ((b :: ddir) `suffix_of` q)) as [[j ->]|Hk2].
    { unfold unrb in Hq. rewrite rebase_app in Hq. destruct (m_ents m !! (j ++ sb :: sd)) as [e0|] eqn:E0; [|done].
      apply names_ok_app. split; [|done]. pose proof (HK (j ++ sb :: sd) ltac:(eauto)) as Hn. by apply names_ok_app in Hn as [? _]. }
    destruct (decide ((sb :: sd) `suffix_of` q)); [done|].
    destruct (decide (q = ddir)) as [->|]; [apply HK; eauto|].
    destruct (decide (q = sd)) as [->|]; [apply HK; eauto|]. apply HK. eauto.
Qed.

(* ---- every call ---- *)
Theorem keys_step env m o m' r : WF m → keys_ok m → step env m o = Done (m', r) → keys_ok m'.
Proof.
  intros HW HK Hs. destruct o; cbn [step] in Hs;
    try (apply done_fst in Hs; cbn [fst] in Hs; subst m'; exact HK).
  - apply done_fst in Hs. rewrite <- Hs, lift_path_fst. by apply set_cwd_keys.
  - apply done_fst in Hs. rewrite <- Hs. destruct (resolve env m s) as [p|e] eqn:Hr; [|exact HK].
    rewrite lift_path_fst. apply add_keys; [exact HK | exact (resolve_names_ok env m s _ Hr)].
  - apply done_fst in Hs. rewrite <- Hs. destruct (resolve env m s) as [p|e] eqn:Hr; [|exact HK].
    pose proof (mkdir_m_abs_keys m p None HK (resolve_names_ok env m s _ Hr)) as H. destruct (mkdir_m_abs m p None) as [m1 [u|e]]; exact H.
  - apply done_fst in Hs. rewrite <- Hs. destruct (resolve env m s) as [p|e] eqn:Hr; [|exact HK].
    pose proof (mkdir_m_abs_keys m p (Some mode) HK (resolve_names_ok env m s _ Hr)) as H. destruct (mkdir_m_abs m p (Some mode)) as [m1 [u|e]]; exact H.
  - apply done_fst in Hs. rewrite <- Hs, lift_unit_fst. by apply write_all_keys.
  - apply done_fst in Hs. rewrite <- Hs. destruct (nl_join ls); [exact HK|]. rewrite lift_unit_fst. by apply write_all_keys.
  - apply done_fst in Hs. rewrite <- Hs, lift_unit_fst. by apply append_all_keys.
  - apply done_fst in Hs. rewrite <- Hs. destruct l; [exact HK|]. rewrite lift_unit_fst. by apply append_all_keys.
  - apply done_fst in Hs. rewrite <- Hs. destruct (nl_join ls); [exact HK|]. rewrite lift_unit_fst. by apply append_all_keys.
  - apply done_fst in Hs. rewrite <- Hs, lift_unit_fst. by apply remove_keys.
  - destruct (remove_all_op env m s) as [r0| |] eqn:E; try discriminate.
    apply done_fst in Hs. rewrite <- Hs, lift_unit_fst. unfold remove_all_op in E. destruct (resolve env m s); [|by simplify_eq].
    by eapply remove_all_loop_keys.
  - apply done_fst in Hs. rewrite <- Hs, lift_path_fst. by apply symlink_keys.
  - destruct (move_op env m s d) as [[m1 r1]| |] eqn:E; try discriminate.
    apply done_fst in Hs. rewrite <- Hs, lift_unit_fst. by eapply move_op_keys.
  - destruct (listing_op env m k s) as [[ps|e]| |]; try discriminate; apply done_fst in Hs; cbn in Hs; subst; exact HK.
  - destruct (resolve env m s) as [p|e]; [|apply done_fst in Hs; cbn in Hs; subst; exact HK].
    destruct (walk (m_ents m) wo no_pre p) as [[evs| |]|e]; try discriminate; apply done_fst in Hs; cbn in Hs; subst; exact HK.
  - destruct (copy_op env m s d o) as [r0| |] eqn:E; try discriminate.
    apply done_fst in Hs. rewrite <- Hs, lift_unit_fst. by eapply copy_op_keys.
  - destruct (chmod_op env m s o) as [r0| |] eqn:E; try discriminate.
    apply done_fst in Hs. rewrite <- Hs, lift_unit_fst. by eapply chmod_op_keys.
  - destruct (chown_op env m s o) as [r0| |] eqn:E; try discriminate.
    apply done_fst in Hs. rewrite <- Hs, lift_unit_fst. by eapply chown_op_keys.
  - destruct (resolve env m s) as [p|e] eqn:Hr; [|apply done_fst in Hs; cbn in Hs; subst; exact HK].
    pose proof (add_keys m (new_file p) HK (resolve_names_ok env m s _ Hr)) as Ha.
    destruct (add m (new_file p)) as [m1 [p'|e]]; cbn [fst] in Ha; [|apply done_fst in Hs; cbn in Hs; subst; exact Ha].
    destruct (chmod_op env m1 _ _) as [[m2 [u|e]]| |] eqn:E; try discriminate;
      apply done_fst in Hs; cbn in Hs; subst; by apply (chmod_op_keys _ _ _ _ _ Ha E).
Qed.

Lemma keys_init : keys_ok mfs_init.
Proof. intros q [e Hq]. unfold mfs_init in Hq. cbn in Hq. apply lookup_singleton_Some in Hq as [<- _]. constructor. Qed.

(* every state a history reaches is keyed by proper names *)
Theorem reachable_keys env os : ∀ m m', WF m → keys_ok m → run_ops env m os = Some m' → keys_ok m'.
Proof.
  induction os as [|o os IH]; intros m m' HW HK Hr; cbn in *; [by simplify_eq|].
  destruct (step env m o) as [[m1 r]| |] eqn:Hs; try discriminate.
  eapply IH; [| |exact Hr]; [by eapply wf_step | by eapply keys_step].
Qed.

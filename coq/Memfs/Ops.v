(* Memfs/Ops.v — mirrors of the Memfs operations that do not traverse (src/sys/fs/memfs/vfs.rs):
   _abs, _add, _mkdir_m, _symlink, mkfile, mkdir_p/m, write_all(+lines), append_all(+line(s)),
   read_all/lines, remove, remove_all, move_p, set_cwd, the queries.  Each mirror follows the Rust
   function's order of checks and mutations; worklist loops run on explicit fuel. *)
From stdpp Require Import gmap.
From Coq Require Import NArith.
From RV Require Import Base.Str Base.PathLex Base.PathLexFacts Base.SpanFacts Path.Helpers Path.Expand Path.Abs Path.CleanSpec Memfs.State.

(* results carry an error kind only (never message text) *)
Definition mres (A : Type) := (A + errkind)%type.

Definition names_of (s : list N) : list (list N) :=
  flat_map (fun c => match c with CNormal n => [n] | _ => [] end) (components s).

(* Memfs::_abs: resolve against the stored cwd; the result is a clean absolute path *)
Definition resolve (env : envmap) (m : mfs) (s : list N) : mres rpath :=
  match Abs.abs (render_rpath (m_cwd m)) env s with
  | inl r => inl (rev (names_of r))
  | inr e => inr e
  end.

Definition upd_ents (m : mfs) (f : gmap (list (list N)) entry -> gmap (list (list N)) entry) : mfs :=
  mkMfs (m_cwd m) (m_root m) (f (m_ents m)) (m_data m).
Definition upd_data (m : mfs) (f : gmap (list (list N)) (list N) -> gmap (list (list N)) (list N)) : mfs :=
  mkMfs (m_cwd m) (m_root m) (m_ents m) (f (m_data m)).

(* Memfs::_add *)
Definition add (m : mfs) (e : entry) : mfs * mres rpath :=
  let path := e_path e in
  match path with
  | [] => if e_file e then (m, inr EIsNotFile) else (m, inl [])   (* the root is never re-created; it is not a file *)
  | base :: dir =>
      match m_ents m !! dir with
      | None => (m, inr EDoesNotExist)
      | Some pe =>
          if negb (e_dir pe) || e_link pe then (m, inr EIsNotDir) else
          match m_ents m !! path with
          | Some x =>
              (* an existing symlink is neither a file nor a directory unless a symlink is being added *)
              let other_link := e_link x && negb (e_link e) in
              if e_file e && (negb (e_file x) || other_link) then (m, inr EIsNotFile)
              else if e_link e && negb (e_link x) then (m, inr EIsNotSymlink)
              else if e_dir e && (negb (e_dir x) || other_link) then (m, inr EIsNotDir)
              else (m, inl path)
          | None =>
              let m1 := if negb (e_link e) && e_file e then upd_data m (insert path []) else m in
              let m2 := upd_ents m1 (insert path e) in
              (* update the parent directory (looked up again, after the insertion) *)
              match m_ents m2 !! dir with
              | Some parent =>
                  let '(parent', fresh) := entry_add parent base in
                  let m3 := upd_ents m2 (insert dir parent') in
                  if fresh then (m3, inl path) else (m3, inr EExistsAlready)
              | None => (m2, inl path)
              end
          end
      end
  end.

(* all prefixes of a path, shortest first, as _mkdir_m pushes the components one by one *)
Fixpoint prefixes (ns : list (list N)) (acc : rpath) : list rpath :=
  match ns with
  | [] => []
  | n :: ns' => (n :: acc) :: prefixes ns' (n :: acc)
  end.

(* Memfs::_mkdir_m *)
Fixpoint mkdir_loop (m : mfs) (ps : list rpath) (mode : option N) : mfs * mres unit :=
  match ps with
  | [] => (m, inl tt)
  | p :: ps' =>
      match add m (new_dir p mode) with
      | (m', inl _) => mkdir_loop m' ps' mode
      | (m', inr e) => (m', inr e)
      end
  end.
Definition mkdir_m_abs (m : mfs) (p : rpath) (mode : option N) : mfs * mres unit :=
  (* abs.components(): the root first (its _add is a no-op), then every name *)
  match add m (new_dir [] mode) with
  | (m0, inl _) => mkdir_loop m0 (prefixes (rev p) []) mode
  | (m0, inr e) => (m0, inr e)
  end.

Definition is_dir_at (m : mfs) (p : rpath) : bool :=
  match m_ents m !! p with Some e => e_dir e && negb (e_link e) | None => false end.

(* Memfs::_symlink *)
Definition symlink_op (env : envmap) (m : mfs) (link target : list N) : mfs * mres rpath :=
  match resolve env m link with
  | inr e => (m, inr e)
  | inl lp =>
      (* relative targets are taken from the link's directory *)
      match (if is_absolute target then inl target
             else match lp with
                  | [] => inr EParentNotFound
                  | _ :: d => inl (mash (render_rpath d) target)
                  end) with
      | inr e => (m, inr e)
      | inl t =>
          match resolve env m t with
          | inr e => (m, inr e)
          | inl tp =>
              if bool_decide (is_Some (m_ents m !! lp)) then (m, inr EExistsAlready) else   (* a link is only ever created *)
              match lp with
              | [] => (m, inr EParentNotFound)           (* link_to: self.path.dir()? on "/" *)
              | _ =>
                  let to_dir := match m_ents m !! tp with Some x => e_dir x | None => false end in
                  add m (new_link lp tp to_dir)
              end
          end
      end
  end.

(* ---- file content ---- *)
(* Memfs::write_all (after its fix): create if needed and replace the data under one guard *)
Definition write_all_op (env : envmap) (m : mfs) (s : list N) (data : list N) : mfs * mres unit :=
  match resolve env m s with
  | inr e => (m, inr e)
  | inl p =>
      match add m (new_file p) with
      | (m', inr e) => (m', inr e)
      | (m', inl _) =>
          match m_data m' !! p with
          | Some _ => (upd_data m' (insert p data), inl tt)
          | None => (m', inl tt)                        (* get_file_mut found nothing: silently Ok *)
          end
      end
  end.

(* Memfs::append + write_all + flush on the handle: the stored content grows by the data *)
Definition append_all_op (env : envmap) (m : mfs) (s : list N) (data : list N) : mfs * mres unit :=
  match resolve env m s with
  | inr e => (m, inr e)
  | inl p =>
      match add m (new_file p) with
      | (m', inr e) => (m', inr e)
      | (m', inl _) =>
          match m_data m' !! p with
          | Some old => (upd_data m' (insert p (old ++ data)), inl tt)
          | None => (m', inr EDoesNotExist)
          end
      end
  end.

(* Memfs::_clone_file *)
Definition clone_file (env : envmap) (m : mfs) (s : list N) : mres (list N) :=
  match resolve env m s with
  | inr e => inr e
  | inl p =>
      match m_ents m !! p with
      | Some f => if negb (e_file f) then inr EIsNotFile
                  else match m_data m !! p with Some d => inl d | None => inr EDoesNotExist end
      | None => match m_data m !! p with Some d => inl d | None => inr EDoesNotExist end
      end
  end.

(* ---- removal ---- *)
(* Memfs::remove *)
Definition remove_op (env : envmap) (m : mfs) (s : list N) : mfs * mres unit :=
  match resolve env m s with
  | inr e => (m, inr e)
  | inl p =>
      if negb (bool_decide (is_Some (m_ents m !! p))) then (m, inl tt) else      (* nothing to remove *)
      let nonempty := match m_ents m !! p with
                      | Some e => match e_files e with Some fs => negb (bool_decide (fs = ∅)) | None => false end
                      | None => false
                      end in
      if nonempty then (m, inr EDirContainsFiles) else
      match p with
      | [] => (m, inr EParentNotFound)                   (* path.dir()? on "/" *)
      | base :: dir =>
          (* remove the name from its parent *)
          match (match m_ents m !! dir with
                 | Some pe => if e_dir pe then inl (upd_ents m (insert dir (entry_remove pe base))) else inr EIsNotDir
                 | None => inl m
                 end) with
          | inr e => (m, inr e)
          | inl m1 =>
              let m2 := match m_ents m1 !! p with
                        | Some e => if e_file e then upd_data m1 (delete p) else m1
                        | None => m1
                        end in
              (upd_ents m2 (delete p), inl tt)
          end
      end
  end.

(* Memfs::remove_all — the worklist loop, on fuel *)
Fixpoint remove_all_loop (fuel : nat) (m : mfs) (paths : list rpath) : outcome (mfs * mres unit) :=
  match fuel with
  | O => OutOfFuel
  | S f =>
      match paths with
      | [] => Done (m, inl tt)
      | p :: rest =>
          match m_ents m !! p with
          | None => remove_all_loop f m rest
          | Some e =>
              let kids := match e_files e with Some fs => elements fs | None => [] end in
              match kids with
              | _ :: _ => remove_all_loop f m (map (fun n => n :: p) kids ++ p :: rest)
              | [] =>
                  match p with
                  | [] => Done (m, inr EParentNotFound)          (* path.dir()? on "/" *)
                  | base :: dir =>
                      match (match m_ents m !! dir with
                             | Some pe => if e_dir pe then inl (upd_ents m (insert dir (entry_remove pe base))) else inr EIsNotDir
                             | None => inl m
                             end) with
                      | inr err => Done (m, inr err)
                      | inl m1 =>
                          let m2 := upd_data m1 (delete p) in
                          remove_all_loop f (upd_ents m2 (delete p)) rest
                      end
                  end
              end
          end
      end
  end.

Definition remove_all_op (env : envmap) (m : mfs) (s : list N) : outcome (mfs * mres unit) :=
  match resolve env m s with
  | inr e => Done (m, inr e)
  | inl p => remove_all_loop (2 * size (m_ents m) + 2) m [p]
  end.

(* ---- move ---- *)
(* rebase p from under src to under dst (p = suffix ++ src as reversed lists) *)
Definition rebase (src dst p : rpath) : rpath := take (length p - length src) p ++ dst.

Definition is_under (p root : rpath) : bool := bool_decide (drop (length p - length root) p = root).

(* the move loop of move_p after validation: re-key every entry of the subtree *)
Fixpoint move_loop (fuel : nat) (m : mfs) (src_root dst_target : rpath) (paths : list rpath) : outcome (mfs * mres unit) :=
  match fuel with
  | O => OutOfFuel
  | S f =>
      match paths with
      | [] => Done (m, inl tt)
      | sp :: rest =>
          let dp := rebase src_root dst_target sp in
          match m_ents m !! sp with
          | None => Done (m, inr EDoesNotExist)
          | Some se =>
              (* 1. move the entry *)
              (* a link stores its target relative to itself: it is resolved again from its new location *)
              let se' := if e_link se && negb (is_absolute (e_rel se))
                         then set_alt (set_path se dp) (Some (rev (names_of (clean_spec (mash (render_rpath (tail dp)) (e_rel se))))))
                         else set_path se dp in
              let m1 := upd_ents m (fun es => insert dp se' (delete sp es)) in
              (* 2. move the data *)
              let m2 := match m_data m1 !! sp with
                        | Some d => upd_data m1 (fun ds => insert dp d (delete sp ds))
                        | None => m1
                        end in
              (* 3. re-link parents, when the old parent still exists (only for the root of the move) *)
              let step3 : mfs + errkind :=
                match sp with
                | [] => inr EParentNotFound
                | sbase :: sdir =>
                    match m_ents m2 !! sdir with
                    | None => inl m2
                    | Some op =>
                        if negb (e_dir op) then inr EIsNotDir else
                        let m3 := upd_ents m2 (insert sdir (entry_remove op sbase)) in
                        match dp with
                        | [] => inr EParentNotFound
                        | dbase :: ddir =>
                            match m_ents m3 !! ddir with
                            | None => inr EParentNotFound
                            | Some np => if negb (e_dir np) then inr EIsNotDir
                                         else inl (upd_ents m3 (insert ddir (fst (entry_add np dbase))))
                            end
                        end
                    end
                end in
              match step3 with
              | inr e => Done (m2, inr e)
              | inl m4 =>
                  let kids := match e_files se with Some fs => elements fs | None => [] end in
                  move_loop f m4 src_root dst_target (map (fun n => n :: sp) kids ++ rest)
              end
          end
      end
  end.

(* Memfs::move_p (after its fix): everything is validated before the first mutation *)
Inductive move_plan := MvErr (e : errkind) | MvNoop | MvGo (sp dt : rpath).

Definition move_validate (env : envmap) (m : mfs) (src dst : list N) : move_plan :=
  match resolve env m src with
  | inr e => MvErr e
  | inl sp =>
      match resolve env m dst with
      | inr e => MvErr e
      | inl dp =>
          let copy_into := is_dir_at m dp in
          match m_ents m !! sp with
          | None => MvErr EDoesNotExist
          | Some _ =>
              (* dst_root.mash(src_root.base()?) *)
              let dt := if copy_into then match sp with [] => dp | b :: _ => b :: dp end else dp in
              if bool_decide (dt = sp) then MvNoop else
              match dt with
              | [] => MvErr EParentNotFound                        (* dst_target.dir()? *)
              | _ :: ddir =>
                  if is_under dt sp then MvErr EParentNotFound else
                  match m_ents m !! ddir with
                  | None => MvErr EDoesNotExist
                  | Some x =>
                      if negb (e_dir x && negb (e_link x)) then MvErr EIsNotDir else
                      (* a directory can't take the place of a file or link *)
                      let clash := match m_ents m !! dt with
                                   | Some y => is_dir_at m sp && negb (e_dir y && negb (e_link y))
                                   | None => false
                                   end in
                      if clash then MvErr EIsNotDir else
                      (* ... nor a file or link that of a directory *)
                      let clash2 := match m_ents m !! dt with
                                    | Some y => negb (is_dir_at m sp) && (e_dir y && negb (e_link y))
                                    | None => false
                                    end in
                      if clash2 then MvErr EIsNotFile else
                      let blocked := match m_ents m !! dt with
                                     | Some y => match e_files y with Some fs => negb (bool_decide (fs = ∅)) | None => false end
                                     | None => false
                                     end in
                      if blocked then MvErr EDirContainsFiles else MvGo sp dt
                  end
              end
          end
      end
  end.

Definition move_op (env : envmap) (m : mfs) (src dst : list N) : outcome (mfs * mres unit) :=
  match move_validate env m src dst with
  | MvErr e => Done (m, inr e)
  | MvNoop => Done (m, inl tt)
  | MvGo sp dt =>
      (* replacing an existing destination: drop its stale data *)
      let m0 := match m_ents m !! dt with Some _ => upd_data m (delete dt) | None => m end in
      move_loop (2 * size (m_ents m) + 2) m0 sp dt [sp]
  end.

(* ---- cwd ---- *)
Definition set_cwd_op (env : envmap) (m : mfs) (s : list N) : mfs * mres rpath :=
  match resolve env m s with
  | inr e => (m, inr e)
  | inl p => match m_ents m !! p with
             | None => (m, inr EDoesNotExist)
             | Some x =>
                 if e_dir x then
                   (* a link to a directory is resolved as chdir(2) does *)
                   let cwd := if e_link x then match e_alt x with Some t => t | None => [] end else p in
                   (mkMfs cwd (m_root m) (m_ents m) (m_data m), inl p)
                 else (m, inr EIsNotDir)
             end
  end.

(* Memfs/WalkFacts.v — proofs for C08 about the traversal state machine:
   - the descriptor counter never underflows (no Panic) and the yielded sequence does not depend on
     the descriptor cap;
   - nothing a filter rejects, and nothing above min_depth, is ever yielded. *)
From stdpp Require Import gmap.
From Coq Require Import NArith.
From RV Require Import Base.Str Path.Helpers Memfs.State Memfs.Walk.

(* ---- the descriptor counter ---- *)
Definition open_count (fs : list frame) : N := N.of_nat (length (filter (fun f => negb (f_cached f)) fs)).

Definition cnt_ok (st : wstate) : Prop := s_open st = open_count (s_iters st).

Lemma open_count_cons f fs : open_count (f :: fs) = (if f_cached f then open_count fs else open_count fs + 1)%N.
Proof.
  unfold open_count. rewrite filter_cons. destruct (f_cached f) eqn:E; cbn [negb]; case_decide; cbn [length]; try done.
  rewrite Nat2N.inj_succ. lia.
Qed.

Lemma process_cnt sn o pre st e st' it pres :
  cnt_ok st → process sn o pre st e = (st', it, pres) → cnt_ok st'.
Proof.
  unfold process, cnt_ok. intros Hc.
  destruct (_ && _ && existsb _ _); [intros ?; by simplify_eq|].
  destruct (_ && lt_max _ _).
  - destruct (pre e); [intros ?; by simplify_eq|].
    destruct (children sn (o_follow o) (e_path e)) as [cs|]; [|intros ?; by simplify_eq].
    destruct (o_sort o || _)%N eqn:Es.
    + repeat case_match; intros ?; simplify_eq; cbn [s_open s_iters]; rewrite open_count_cons; cbn [f_cached]; done.
    + repeat case_match; intros ?; simplify_eq; cbn [s_open s_iters]; rewrite open_count_cons; cbn [f_cached]; lia.
  - repeat case_match; intros ?; by simplify_eq.
Qed.

(* T1: the traversal never panics on its descriptor counter *)
Lemma next_loop_no_panic fuel : ∀ sn o pre st, cnt_ok st → next_loop fuel sn o pre st ≠ Panic.
Proof.
  induction fuel as [|f IH]; intros sn o pre st Hc; cbn [next_loop]; [done|].
  destruct (o_contents_first o && _); [by repeat case_match|].
  destruct (s_iters st) as [|top rest] eqn:Ei; [done|].
  destruct (f_items top) as [|e es] eqn:Ef.
  - destruct (negb (f_cached top) && (s_open st =? 0)%N) eqn:Ep.
    + exfalso. apply andb_true_iff in Ep as [Hnc Hz]. apply N.eqb_eq in Hz. unfold cnt_ok in Hc.
      rewrite Ei, open_count_cons in Hc. apply negb_true_iff in Hnc. rewrite Hnc in Hc. lia.
    + apply IH. unfold cnt_ok in *. cbn [s_open s_iters]. rewrite Ei, open_count_cons in Hc.
      destruct (f_cached top); [done | lia].
  - assert (Hc0 : cnt_ok (mkWstate (s_started st) (s_open st) (mkFrame (f_path top) (f_cached top) es :: rest) (s_deferred st))).
    { unfold cnt_ok in *. cbn [s_open s_iters]. rewrite Ei in Hc. rewrite !open_count_cons in *. exact Hc. }
    destruct (process sn o pre _ e) as [[st1 it] pres] eqn:Ep.
    pose proof (process_cnt _ _ _ _ _ _ _ _ Hc0 Ep) as Hc1.
    destruct it; [done|]. specialize (IH sn o pre st1 Hc1).
    destruct (next_loop f sn o pre st1) as [[[? ?] ?]| |]; done.
Qed.

Lemma next_no_panic fuel sn o pre root st : cnt_ok st → next fuel sn o pre root st ≠ Panic.
Proof.
  intros Hc. unfold next. destruct (s_started st); [by apply next_loop_no_panic|].
  destruct (process sn o pre _ _) as [[st1 it] pres] eqn:Ep.
  assert (Hc0 : cnt_ok (mkWstate true (s_open st) (s_iters st) (s_deferred st))) by exact Hc.
  pose proof (process_cnt _ _ _ _ _ _ _ _ Hc0 Ep) as Hc1.
  destruct it; [done|]. pose proof (next_loop_no_panic fuel sn o pre st1 Hc1).
  destruct (next_loop fuel sn o pre st1) as [[[? ?] ?]| |]; done.
Qed.

Lemma next_loop_cnt fuel : ∀ sn o pre st st' it pres, cnt_ok st →
  next_loop fuel sn o pre st = Done (st', it, pres) → cnt_ok st'.
Proof.
  induction fuel as [|f IH]; intros sn o pre st st' it pres Hc; cbn [next_loop]; [done|].
  destruct (o_contents_first o && _).
  { destruct (s_deferred st) as [|[d dep] ds]; intros ?; simplify_eq; exact Hc. }
  destruct (s_iters st) as [|top rest] eqn:Ei; [intros ?; by simplify_eq|].
  destruct (f_items top) as [|e es] eqn:Ef.
  - destruct (negb (f_cached top) && (s_open st =? 0)%N) eqn:Ep; [done|].
    apply IH. unfold cnt_ok in *. cbn [s_open s_iters]. rewrite Ei, open_count_cons in Hc.
    destruct (f_cached top) eqn:Efc; [done|]. cbn in Ep. apply N.eqb_neq in Ep. lia.
  - assert (Hc0 : cnt_ok (mkWstate (s_started st) (s_open st) (mkFrame (f_path top) (f_cached top) es :: rest) (s_deferred st))).
    { unfold cnt_ok in *. cbn [s_open s_iters]. rewrite Ei in Hc. rewrite !open_count_cons in *. exact Hc. }
    destruct (process sn o pre _ e) as [[st1 it1] pres1] eqn:Ep.
    pose proof (process_cnt _ _ _ _ _ _ _ _ Hc0 Ep) as Hc1.
    destruct it1; [intros ?; by simplify_eq|].
    destruct (next_loop f sn o pre st1) as [[[st2 it2] pres2]| |] eqn:En; try done.
    intros ?. simplify_eq. eapply IH; eauto.
Qed.

Lemma next_cnt fuel sn o pre root st st' it pres : cnt_ok st →
  next fuel sn o pre root st = Done (st', it, pres) → cnt_ok st'.
Proof.
  intros Hc. unfold next. destruct (s_started st); [by apply next_loop_cnt|].
  destruct (process sn o pre _ _) as [[st1 it1] pres1] eqn:Ep.
  assert (Hc0 : cnt_ok (mkWstate true (s_open st) (s_iters st) (s_deferred st))) by exact Hc.
  pose proof (process_cnt _ _ _ _ _ _ _ _ Hc0 Ep) as Hc1.
  destruct it1; [intros ?; by simplify_eq|].
  destruct (next_loop fuel sn o pre st1) as [[[st2 it2] pres2]| |] eqn:En; try done.
  intros ?. simplify_eq. eapply next_loop_cnt; eauto.
Qed.

Theorem collect_no_panic n : ∀ fuel sn o pre root st, cnt_ok st → collect n fuel sn o pre root st ≠ Panic.
Proof.
  induction n as [|n IH]; intros fuel sn o pre root st Hc; cbn [collect]; [done|].
  pose proof (next_no_panic fuel sn o pre root st Hc) as Hnp.
  destruct (next fuel sn o pre root st) as [[[st' it] pres]| |] eqn:En; try done.
  destruct it; [|done]. pose proof (next_cnt _ _ _ _ _ _ _ _ _ Hc En) as Hc'.
  specialize (IH fuel sn o pre root st' Hc'). destruct (collect n fuel sn o pre root st'); done.
Qed.

Theorem walk_no_panic sn o pre p : walk sn o pre p ≠ inl Panic.
Proof.
  unfold walk. destruct (sn !! p); [|done]. intros H. injection H as H.
  eapply collect_no_panic; [|exact H]. reflexivity.
Qed.

(* ---- nothing rejected by the filter or above min_depth is yielded ---- *)
Definition deferred_ok (o : wopts) (st : wstate) : Prop := Forall (fun e => passes o (fst e) = true) (s_deferred st).

Lemma process_yield sn o pre st e st' x pres :
  deferred_ok o st → process sn o pre st e = (st', Some (IOk x), pres) → passes o x = true ∧ deferred_ok o st'.
Proof.
  unfold process, deferred_ok. intros Hd.
  destruct (_ && _ && existsb _ _); [intros ?; by simplify_eq|].
  set (r := if _ && lt_max _ _ then _ else _). destruct r as [[st1 ps]|[err ps]] eqn:Er; [|intros ?; by simplify_eq].
  assert (Hd1 : s_deferred st1 = s_deferred st).
  { unfold r in Er. repeat case_match; simplify_eq; done. }
  destruct (_ <? o_min o); [intros ?; by simplify_eq|].
  destruct (passes o e) eqn:Ep; cbn [negb]; [|intros ?; by simplify_eq].
  destruct (e_dir e && o_contents_first o); [intros ?; by simplify_eq|].
  intros ?. simplify_eq. split; [done|]. by rewrite Hd1.
Qed.

Lemma process_deferred sn o pre st e st' it pres :
  deferred_ok o st → process sn o pre st e = (st', it, pres) → deferred_ok o st'.
Proof.
  unfold process, deferred_ok. intros Hd.
  destruct (_ && _ && existsb _ _); [intros ?; by simplify_eq|].
  set (r := if _ && lt_max _ _ then _ else _). destruct r as [[st1 ps]|[err ps]] eqn:Er; [|intros ?; by simplify_eq].
  assert (Hd1 : s_deferred st1 = s_deferred st).
  { unfold r in Er. repeat case_match; simplify_eq; done. }
  destruct (_ <? o_min o); [intros ?; simplify_eq; by rewrite Hd1|].
  destruct (passes o e) eqn:Ep; cbn [negb]; [|intros ?; simplify_eq; by rewrite Hd1].
  destruct (e_dir e && o_contents_first o); intros ?; simplify_eq; cbn [s_deferred]; rewrite ?Hd1; [by constructor | done].
Qed.

Lemma next_loop_yield fuel : ∀ sn o pre st st' x pres, deferred_ok o st →
  next_loop fuel sn o pre st = Done (st', Some (IOk x), pres) → passes o x = true ∧ deferred_ok o st'.
Proof.
  induction fuel as [|f IH]; intros sn o pre st st' x pres Hd; cbn [next_loop]; [done|].
  destruct (o_contents_first o && _).
  { destruct (s_deferred st) as [|[d dep] ds] eqn:Ed; intros ?; simplify_eq.
    unfold deferred_ok in *. rewrite Ed in Hd. inversion Hd; subst. done. }
  destruct (s_iters st) as [|top rest] eqn:Ei; [intros ?; by simplify_eq|].
  destruct (f_items top) as [|e es] eqn:Ef.
  - destruct (negb (f_cached top) && _); [done|]. apply IH. exact Hd.
  - destruct (process sn o pre _ e) as [[st1 it1] pres1] eqn:Ep.
    assert (Hd0 : deferred_ok o (mkWstate (s_started st) (s_open st) (mkFrame (f_path top) (f_cached top) es :: rest) (s_deferred st))) by exact Hd.
    destruct it1 as [i|].
    + intros ?. simplify_eq. eapply process_yield; eauto.
    + pose proof (process_deferred _ _ _ _ _ _ _ _ Hd0 Ep) as Hd1.
      destruct (next_loop f sn o pre st1) as [[[st2 it2] pres2]| |] eqn:En; try done.
      intros ?. simplify_eq. eapply IH; eauto.
Qed.

Lemma next_loop_deferred fuel : ∀ sn o pre st st' it pres, deferred_ok o st →
  next_loop fuel sn o pre st = Done (st', it, pres) → deferred_ok o st'.
Proof.
  induction fuel as [|f IH]; intros sn o pre st st' it pres Hd; cbn [next_loop]; [done|].
  destruct (o_contents_first o && _).
  { destruct (s_deferred st) as [|[d dep] ds] eqn:Ed; intros ?; simplify_eq; [done|].
    unfold deferred_ok in *. rewrite Ed in Hd. cbn. by inversion Hd. }
  destruct (s_iters st) as [|top rest] eqn:Ei; [intros ?; by simplify_eq|].
  destruct (f_items top) as [|e es] eqn:Ef.
  - destruct (negb (f_cached top) && _); [done|]. apply IH. exact Hd.
  - destruct (process sn o pre _ e) as [[st1 it1] pres1] eqn:Ep.
    assert (Hd0 : deferred_ok o (mkWstate (s_started st) (s_open st) (mkFrame (f_path top) (f_cached top) es :: rest) (s_deferred st))) by exact Hd.
    pose proof (process_deferred _ _ _ _ _ _ _ _ Hd0 Ep) as Hd1.
    destruct it1 as [i|]; [intros ?; by simplify_eq|].
    destruct (next_loop f sn o pre st1) as [[[st2 it2] pres2]| |] eqn:En; try done.
    intros ?. simplify_eq. eapply IH; eauto.
Qed.

Lemma next_yield fuel sn o pre root st st' x pres : deferred_ok o st →
  next fuel sn o pre root st = Done (st', Some (IOk x), pres) → passes o x = true ∧ deferred_ok o st'.
Proof.
  intros Hd. unfold next. destruct (s_started st); [by apply next_loop_yield|].
  destruct (process sn o pre _ _) as [[st1 it1] pres1] eqn:Ep.
  assert (Hd0 : deferred_ok o (mkWstate true (s_open st) (s_iters st) (s_deferred st))) by exact Hd.
  destruct it1 as [i|].
  - intros ?. simplify_eq. eapply process_yield; eauto.
  - pose proof (process_deferred _ _ _ _ _ _ _ _ Hd0 Ep) as Hd1.
    destruct (next_loop fuel sn o pre st1) as [[[st2 it2] pres2]| |] eqn:En; try done.
    intros ?. simplify_eq. eapply next_loop_yield; eauto.
Qed.

Lemma next_deferred fuel sn o pre root st st' it pres : deferred_ok o st →
  next fuel sn o pre root st = Done (st', it, pres) → deferred_ok o st'.
Proof.
  intros Hd. unfold next. destruct (s_started st); [by apply next_loop_deferred|].
  destruct (process sn o pre _ _) as [[st1 it1] pres1] eqn:Ep.
  assert (Hd0 : deferred_ok o (mkWstate true (s_open st) (s_iters st) (s_deferred st))) by exact Hd.
  pose proof (process_deferred _ _ _ _ _ _ _ _ Hd0 Ep) as Hd1.
  destruct it1 as [i|]; [intros ?; by simplify_eq|].
  destruct (next_loop fuel sn o pre st1) as [[[st2 it2] pres2]| |] eqn:En; try done.
  intros ?. simplify_eq. eapply next_loop_deferred; eauto.
Qed.

(* T2: every entry the traversal yields passes the dirs()/files() filter *)
Theorem collect_no_rejected n : ∀ fuel sn o pre root st evs, deferred_ok o st →
  collect n fuel sn o pre root st = Done evs → ∀ x, In (IOk x) (items_of evs) → passes o x = true.
Proof.
  induction n as [|n IH]; intros fuel sn o pre root st evs Hd; cbn [collect]; [done|].
  destruct (next fuel sn o pre root st) as [[[st' it] pres]| |] eqn:En; try done.
  assert (Hpre : ∀ l, items_of (map EvPre l) = []) by (induction l; cbn; auto).
  destruct it as [i|].
  - pose proof (next_deferred _ _ _ _ _ _ _ _ _ Hd En) as Hd'.
    destruct (collect n fuel sn o pre root st') as [evs'| |] eqn:Ec; try done.
    intros ?. simplify_eq. intros x Hin. unfold items_of in Hin. rewrite flat_map_app in Hin.
    fold (items_of (map EvPre pres)) in Hin. rewrite Hpre in Hin. cbn in Hin. destruct Hin as [Hx|Hin].
    + subst i. destruct (next_yield _ _ _ _ _ _ _ _ _ Hd En) as [Hp _]. exact Hp.
    + eapply IH; [exact Hd' | exact Ec | exact Hin].
  - intros ?. simplify_eq. intros x Hin. rewrite Hpre in Hin. done.
Qed.

Theorem walk_no_rejected sn o pre p evs : walk sn o pre p = inl (Done evs) →
  ∀ x, In (IOk x) (items_of evs) → passes o x = true.
Proof.
  unfold walk. destruct (sn !! p); [|done]. intros H. injection H as H.
  eapply collect_no_rejected; [|exact H]. constructor.
Qed.

(* ---- independence of the descriptor cap ---- *)
Definition erase_frame (f : frame) : rpath * list entry := (f_path f, f_items f).
Definition erase (st : wstate) : bool * list (rpath * list entry) * list (entry * nat) :=
  (s_started st, map erase_frame (s_iters st), s_deferred st).

Definition same_but_cap (o o' : wopts) : Prop :=
  o_dirs o = o_dirs o' ∧ o_files o = o_files o' ∧ o_follow o = o_follow o' ∧ o_min o = o_min o' ∧ o_max o = o_max o' ∧
  o_dirs_first o = o_dirs_first o' ∧ o_files_first o = o_files_first o' ∧ o_contents_first o = o_contents_first o' ∧ o_sort o = o_sort o'.

Lemma erase_iters_length st st' : erase st = erase st' → length (s_iters st) = length (s_iters st').
Proof. unfold erase. intros H. injection H as _ Hm _. apply (f_equal length) in Hm. by rewrite !map_length in Hm. Qed.

Lemma erase_existsb st st' p : erase st = erase st' →
  existsb (λ f, bool_decide (f_path f = p)) (s_iters st) = existsb (λ f, bool_decide (f_path f = p)) (s_iters st').
Proof.
  unfold erase. intros H. injection H as _ Hm _. revert Hm. generalize (s_iters st) (s_iters st').
  induction l as [|f l IH]; intros [|f' l'] Hm; cbn in *; try done. unfold erase_frame in Hm at 1 3. inversion Hm as [[Hp Hi Hm']].
  rewrite Hp. f_equal. by apply IH.
Qed.

Lemma process_cap_let sn o o' pre st st' e :
  same_but_cap o o' → erase st = erase st' →
  let '(st1, it, pres) := process sn o pre st e in
  ∃ st1', process sn o' pre st' e = (st1', it, pres) ∧ erase st1 = erase st1'.
Proof.
  intros (H1 & H2 & H3 & H4 & H5 & H6 & H7 & H8 & H9) He. unfold process.
  assert (Hpass : passes o' e = passes o e) by (unfold passes; by rewrite <- H1, <- H2). rewrite Hpass.
  rewrite <- H3, <- H4, <- H5, <- H6, <- H7, <- H8, <- H9.
  rewrite <- (erase_iters_length _ _ He), <- (erase_existsb _ _ (e_path e) He).
  assert (Hst : s_started st = s_started st' ∧ map erase_frame (s_iters st) = map erase_frame (s_iters st') ∧ s_deferred st = s_deferred st')
    by (unfold erase in He; by simplify_eq).
  destruct Hst as (Hs1 & Hs2 & Hs3).
  set (enter := e_dir e && (negb (e_link e) || o_follow o)).
  destruct (enter && e_link e && existsb (λ f, bool_decide (f_path f = e_path e)) (s_iters st)).
  { cbv beta iota zeta. eexists. split; [reflexivity | exact He]. }
  destruct (enter && lt_max (length (s_iters st)) (o_max o)).
  - destruct (pre e).
    { cbv beta iota zeta. eexists. split; [reflexivity | exact He]. }
    destruct (children sn (o_follow o) (e_path e)) as [cs|].
    2:{ cbv beta iota zeta. eexists. split; [reflexivity | exact He]. }
    assert (Hes : ∀ a b c d items, erase (mkWstate (s_started st) a (mkFrame (e_path e) b items :: s_iters st) (s_deferred st)) =
                    erase (mkWstate (s_started st') c (mkFrame (e_path e) d items :: s_iters st') (s_deferred st'))).
    { intros. unfold erase. cbn. rewrite Hs1, Hs2, Hs3. done. }
    assert (Hesd : ∀ a b c d items x, erase (mkWstate (s_started st) a (mkFrame (e_path e) b items :: s_iters st) (x :: s_deferred st)) =
                    erase (mkWstate (s_started st') c (mkFrame (e_path e) d items :: s_iters st') (x :: s_deferred st'))).
    { intros. unfold erase. cbn. rewrite Hs1, Hs2, Hs3. done. }
    destruct (o_sort o) eqn:Es; cbn [orb]; cbv beta iota zeta.
    + destruct (length (s_iters st) <? o_min o); [cbv beta iota zeta; eexists; split; [reflexivity | apply Hes]|].
      destruct (negb (passes o e)); [cbv beta iota zeta; eexists; split; [reflexivity | apply Hes]|].
      destruct (e_dir e && o_contents_first o); cbv beta iota zeta; eexists; (split; [reflexivity|]); [apply Hesd | apply Hes].
    + destruct (o_maxdesc o <? s_open st + 1)%N, (o_maxdesc o' <? s_open st' + 1)%N; cbv beta iota zeta;
        (destruct (length (s_iters st) <? o_min o); [cbv beta iota zeta; eexists; split; [reflexivity | apply Hes]|]);
        (destruct (negb (passes o e)); [cbv beta iota zeta; eexists; split; [reflexivity | apply Hes]|]);
        (destruct (e_dir e && o_contents_first o); cbv beta iota zeta; eexists; (split; [reflexivity|]); [apply Hesd | apply Hes]).
  - cbv beta iota zeta. destruct (length (s_iters st) <? o_min o); [cbv beta iota zeta; eexists; split; [reflexivity | exact He]|].
    destruct (negb (passes o e)); [cbv beta iota zeta; eexists; split; [reflexivity | exact He]|].
    destruct (e_dir e && o_contents_first o); cbv beta iota zeta; eexists; (split; [reflexivity|]); [|exact He].
    unfold erase. cbn. rewrite Hs1, Hs2, Hs3. done.
Qed.

Lemma process_cap sn o o' pre st st' e st1 it pres :
  same_but_cap o o' → erase st = erase st' → process sn o pre st e = (st1, it, pres) →
  ∃ st1', process sn o' pre st' e = (st1', it, pres) ∧ erase st1 = erase st1'.
Proof.
  intros Hs He Hp. pose proof (process_cap_let sn o o' pre st st' e Hs He) as H. rewrite Hp in H. exact H.
Qed.

Lemma next_loop_cap fuel : ∀ sn o o' pre st st' st1 it pres,
  same_but_cap o o' → erase st = erase st' → cnt_ok st → cnt_ok st' →
  next_loop fuel sn o pre st = Done (st1, it, pres) →
  ∃ st1', next_loop fuel sn o' pre st' = Done (st1', it, pres) ∧ erase st1 = erase st1'.
Proof.
  induction fuel as [|f IH]; intros sn o o' pre st st' st1 it pres Hs He Hc Hc'; cbn [next_loop]; [done|].
  pose proof Hs as (_ & _ & _ & _ & _ & _ & _ & H8 & _). rewrite <- H8.
  pose proof (erase_iters_length _ _ He) as Hl. rewrite <- Hl.
  assert (Hd : s_deferred st = s_deferred st') by (unfold erase in He; by simplify_eq). rewrite <- Hd.
  assert (Hst : s_started st = s_started st' ∧ map erase_frame (s_iters st) = map erase_frame (s_iters st'))
    by (unfold erase in He; by simplify_eq).
  destruct Hst as (Hs1 & Hs2).
  destruct (o_contents_first o && _).
  { destruct (s_deferred st) as [|[d dep] ds] eqn:Ed; intros Hres; inversion Hres; subst st1 it pres; eexists; (split; [reflexivity|]); [exact He|].
    unfold erase. cbn. rewrite Hs1, Hs2. done. }
  destruct (s_iters st) as [|top rest] eqn:Ei, (s_iters st') as [|top' rest'] eqn:Ei'; try (cbn in Hl; done).
  { intros Hres; inversion Hres; subst st1 it pres. eexists. split; [reflexivity | exact He]. }
  assert (Hf : f_path top = f_path top' ∧ f_items top = f_items top' ∧ map erase_frame rest = map erase_frame rest').
  { unfold erase in He. rewrite Ei, Ei' in He. cbn in He. unfold erase_frame in He at 1 3. simplify_eq. done. }
  destruct Hf as (Hp & Hi & Hr). rewrite <- Hi, <- Hp.
  destruct (f_items top) as [|e es] eqn:Ef.
  - assert (Hnp : (negb (f_cached top) && (s_open st =? 0)%N) = false).
    { destruct (negb (f_cached top) && (s_open st =? 0)%N) eqn:Ep; [|done]. exfalso.
      apply andb_true_iff in Ep as [Hnc Hz]. apply N.eqb_eq in Hz. unfold cnt_ok in Hc.
      rewrite Ei, open_count_cons in Hc. apply negb_true_iff in Hnc. rewrite Hnc in Hc. lia. }
    assert (Hnp' : (negb (f_cached top') && (s_open st' =? 0)%N) = false).
    { destruct (negb (f_cached top') && (s_open st' =? 0)%N) eqn:Ep; [|done]. exfalso.
      apply andb_true_iff in Ep as [Hnc Hz]. apply N.eqb_eq in Hz. unfold cnt_ok in Hc'.
      rewrite Ei', open_count_cons in Hc'. apply negb_true_iff in Hnc. rewrite Hnc in Hc'. lia. }
    rewrite Hnp, Hnp'. apply IH; [exact Hs | | |].
    + unfold erase. cbn. rewrite Hs1, Hr, Hd. done.
    + unfold cnt_ok in *. cbn [s_open s_iters]. rewrite Ei, open_count_cons in Hc. destruct (f_cached top) eqn:E; [done|].
      cbn in Hnp. apply N.eqb_neq in Hnp. lia.
    + unfold cnt_ok in *. cbn [s_open s_iters]. rewrite Ei', open_count_cons in Hc'. destruct (f_cached top') eqn:E; [done|].
      cbn in Hnp'. apply N.eqb_neq in Hnp'. lia.
  - set (st0 := mkWstate (s_started st) (s_open st) (mkFrame (f_path top) (f_cached top) es :: rest) (s_deferred st)).
    set (st0' := mkWstate (s_started st') (s_open st') (mkFrame (f_path top) (f_cached top') es :: rest') (s_deferred st)).
    assert (He0 : erase st0 = erase st0').
    { unfold erase, st0, st0'. cbn. unfold erase_frame at 1 3. cbn. rewrite Hs1, Hr. done. }
    assert (Hc0 : cnt_ok st0) by (unfold cnt_ok, st0 in *; cbn [s_open s_iters]; rewrite Ei in Hc; rewrite !open_count_cons in *; exact Hc).
    assert (Hc0' : cnt_ok st0') by (unfold cnt_ok, st0' in *; cbn [s_open s_iters]; rewrite Ei' in Hc'; rewrite !open_count_cons in *; exact Hc').
    destruct (process sn o pre st0 e) as [[st1a it1] pres1] eqn:Ep.
    destruct (process_cap _ _ _ _ _ _ _ _ _ _ Hs He0 Ep) as (st1a' & Ep' & He1). rewrite Ep'.
    destruct it1 as [i|]; [intros Hres; inversion Hres; subst st1 it pres; eexists; split; [reflexivity | exact He1]|].
    pose proof (process_cnt _ _ _ _ _ _ _ _ Hc0 Ep) as Hc1. pose proof (process_cnt _ _ _ _ _ _ _ _ Hc0' Ep') as Hc1'.
    destruct (next_loop f sn o pre st1a) as [[[st2 it2] pres2]| |] eqn:En; try done.
    destruct (IH _ _ _ _ _ _ _ _ _ Hs He1 Hc1 Hc1' En) as (st2' & En' & He2). rewrite En'.
    intros Hres; inversion Hres; subst st1 it pres. eexists. split; [reflexivity | exact He2].
Qed.

Lemma next_cap fuel sn o o' pre root st st' st1 it pres :
  same_but_cap o o' → erase st = erase st' → cnt_ok st → cnt_ok st' →
  next fuel sn o pre root st = Done (st1, it, pres) →
  ∃ st1', next fuel sn o' pre root st' = Done (st1', it, pres) ∧ erase st1 = erase st1'.
Proof.
  intros Hs He Hc Hc'. unfold next.
  assert (Hst : s_started st = s_started st') by (unfold erase in He; by simplify_eq). rewrite <- Hst.
  destruct (s_started st); [by apply next_loop_cap|].
  pose proof Hs as (_ & _ & H3 & _). rewrite <- H3.
  set (st0 := mkWstate true (s_open st) (s_iters st) (s_deferred st)).
  set (st0' := mkWstate true (s_open st') (s_iters st') (s_deferred st')).
  assert (He0 : erase st0 = erase st0').
  { unfold erase in He. injection He as _ Hi Hd. unfold erase, st0, st0'. cbn. rewrite Hi, Hd. done. }
  destruct (process sn o pre st0 _) as [[st1a it1] pres1] eqn:Ep.
  destruct (process_cap _ _ _ _ _ _ _ _ _ _ Hs He0 Ep) as (st1a' & Ep' & He1). rewrite Ep'.
  destruct it1 as [i|]; [intros Hres; inversion Hres; subst st1 it pres; eexists; split; [reflexivity | exact He1]|].
  assert (Hc0 : cnt_ok st0) by exact Hc. assert (Hc0' : cnt_ok st0') by exact Hc'.
  pose proof (process_cnt _ _ _ _ _ _ _ _ Hc0 Ep) as Hc1. pose proof (process_cnt _ _ _ _ _ _ _ _ Hc0' Ep') as Hc1'.
  destruct (next_loop fuel sn o pre st1a) as [[[st2 it2] pres2]| |] eqn:En; try done.
  destruct (next_loop_cap _ _ _ _ _ _ _ _ _ _ Hs He1 Hc1 Hc1' En) as (st2' & En' & He2). rewrite En'.
  intros Hres; inversion Hres; subst st1 it pres. eexists. split; [reflexivity | exact He2].
Qed.

(* T3: the sequence of events (pre_op calls and yielded items) does not depend on max_descriptors *)
Theorem collect_cap n : ∀ fuel sn o o' pre root st st' evs,
  same_but_cap o o' → erase st = erase st' → cnt_ok st → cnt_ok st' →
  collect n fuel sn o pre root st = Done evs → collect n fuel sn o' pre root st' = Done evs.
Proof.
  induction n as [|n IH]; intros fuel sn o o' pre root st st' evs Hs He Hc Hc'; cbn [collect]; [done|].
  destruct (next fuel sn o pre root st) as [[[st1 it] pres]| |] eqn:En; try done.
  destruct (next_cap _ _ _ _ _ _ _ _ _ _ _ Hs He Hc Hc' En) as (st1' & En' & He1). rewrite En'.
  destruct it as [i|]; [|done].
  pose proof (next_cnt _ _ _ _ _ _ _ _ _ Hc En) as Hc1. pose proof (next_cnt _ _ _ _ _ _ _ _ _ Hc' En') as Hc1'.
  destruct (collect n fuel sn o pre root st1) as [evs1| |] eqn:Ec; try done.
  rewrite (IH _ _ _ _ _ _ _ _ _ Hs He1 Hc1 Hc1' Ec). done.
Qed.

Theorem walk_cap_independent sn o pre p evs cap :
  walk sn o pre p = inl (Done evs) → walk sn (w_maxdesc o cap) pre p = inl (Done evs).
Proof.
  unfold walk. destruct (sn !! p); [|done]. intros H. injection H as H. f_equal.
  eapply collect_cap; [| | | |exact H]; try done.
Qed.

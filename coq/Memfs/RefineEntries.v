(* Memfs/RefineEntries.v — entries() with a sort by name and none of follow / dirs_first / files_first / contents_first, any
   depth window and dirs() / files() filter, refines the reference tree filesystem (C01, C08): the yielded paths are the
   paths at or below the start whose depth lies in the window and whose node passes the filter, in increasing lexicographic
   order (Memfs/WalkLex.v); no traversal is needed to say so. *)
From stdpp Require Import gmap sorting.
From Coq Require Import NArith.
From RV Require Import Base.Str Path.Helpers Path.Expand Memfs.State Memfs.Ops Memfs.Walk Memfs.WalkOps Memfs.WalkFacts Memfs.WalkSpec Memfs.WalkTerm
  Memfs.WalkExact Memfs.WalkLex Memfs.Wf Memfs.Spec Memfs.Refine Memfs.RefineList Memfs.Step.

Definition plain_sorted_b (o : wopts) : bool :=
  negb (o_follow o) && o_sort o && negb (o_dirs_first o) && negb (o_files_first o) && negb (o_contents_first o).

Lemma plain_sorted_b_spec o : plain_sorted_b o = true → plain_sorted o.
Proof.
  unfold plain_sorted_b, plain_sorted. intros H. repeat (apply andb_true_iff in H as [H ?]).
  repeat match goal with H : negb _ = true |- _ => apply negb_true_iff in H end. done.
Qed.

Definition node_passes (o : wopts) (n : node) : bool :=
  if o_files o then negb (node_dirlike n) else if o_dirs o then node_dirlike n else true.

Definition entries_sel (t : tree) (o : wopts) (p q : rpath) : bool :=
  bool_decide (p `suffix_of` q) && negb (length q - length p <? o_min o) && le_max (length q - length p) (o_max o) &&
  match t_nodes t !! q with Some n => node_passes o n | None => false end.

Definition spec_entries (t : tree) (o : wopts) (p : rpath) : list (list N) :=
  map render_rpath (merge_sort plex (filter (λ q, entries_sel t o p q = true) (map fst (map_to_list (t_nodes t))))).

Lemma node_passes_of o x d : kind_ok x → node_passes o (node_of x d) = passes o x.
Proof.
  intros Hk. unfold kind_ok in Hk. unfold node_passes, passes, node_dirlike, node_of, kind_of_entry. cbn.
  destruct (o_files o), (o_dirs o), (e_link x), (e_dir x), (e_file x); done.
Qed.

Theorem entries_refines env m s o p r : WF m → kinds_ok m → plain_sorted o → resolve env m s = inl p → m_ents m !! p = Some r →
  step env m (OEntries s o) = Done (m, inl (VItems (map inl (spec_entries (abs m) o p)))).
Proof.
  intros HW HK Hpl Hres Hr. cbn [step]. rewrite Hres.
  destruct (walk_exact m o no_pre p r HW (proj1 Hpl) ltac:(done) Hr) as (evs & Hw & Hit & Hiff & Hnd).
  pose proof (walk_sorted m o no_pre p r evs HW Hpl ltac:(done) Hr Hw) as Hsorted.
  rewrite Hw, Hit. f_equal. f_equal. f_equal. f_equal. rewrite map_map. unfold spec_entries. rewrite map_map.
  rewrite <- (map_map e_path (λ q, inl (render_rpath q))). f_equal.
  apply plex_sorted_unique; [done|apply StronglySorted_merge_sort; apply _|done| |].
  - rewrite merge_sort_Permutation. apply NoDup_filter, NoDup_fst_map_to_list.
  - intros q. rewrite merge_sort_Permutation, elem_of_list_filter, elem_of_list_fmap. split.
    + intros (x & -> & Hx). apply Hiff in Hx as (q & Hq & Hs & Hsel & Hmax). rewrite (wf_key m HW _ _ Hq).
      unfold selected in Hsel. apply andb_true_iff in Hsel as [Hmin Hp]. split.
      * unfold entries_sel. rewrite bool_decide_eq_true_2 by done. rewrite Hmin, Hmax. cbn [andb].
        rewrite lookup_abs, Hq. cbn. by rewrite (node_passes_of o x _ (HK _ _ Hq)).
      * apply elem_of_list_fmap. exists (q, node_of x (m_data m !! q)). split; [done|].
        apply elem_of_map_to_list. by rewrite lookup_abs, Hq.
    + intros [Hsel Hin]. unfold entries_sel in Hsel. apply andb_true_iff in Hsel as [Hsel Hn]. apply andb_true_iff in Hsel as [Hsel Hmax].
      apply andb_true_iff in Hsel as [Hs Hmin]. apply bool_decide_eq_true in Hs.
      rewrite lookup_abs in Hn. destruct (m_ents m !! q) as [x|] eqn:Hq; [|done]. cbn in Hn. rewrite (node_passes_of o x _ (HK _ _ Hq)) in Hn.
      exists x. split; [by rewrite (wf_key m HW _ _ Hq)|]. apply Hiff. exists q. split; [done|]. split; [done|]. split; [|done].
      unfold selected. by rewrite Hmin, Hn.
Qed.

Lemma entries_missing env m s o p : resolve env m s = inl p → m_ents m !! p = None → step env m (OEntries s o) = Done (m, inr EDoesNotExist).
Proof. intros Hres Hr. cbn [step]. rewrite Hres. unfold walk. by rewrite Hr. Qed.

(* Memfs/Refine.v — C01: the Memfs mirror (three redundant indexes) refines the plain reference tree (Memfs/Spec.v)
   for the single-target calls: the abstraction forgets the per-directory child lists and merges the data index into
   the nodes; under the well-formedness invariant (C03, proved for every history) each call of the mirror returns
   exactly what the reference call returns and leaves exactly the reference call's tree. *)
From stdpp Require Import gmap.
From Coq Require Import NArith.
From RV Require Import Base.Str Path.Helpers Path.Expand Memfs.State Memfs.Ops Memfs.Step Memfs.Wf Memfs.Spec Macros.Asserts.

(* every stored entry is directory-kinded or file-kinded, never both or neither (a link carries the kind of its target) *)
Definition kind_ok (e : entry) : Prop := e_dir e = negb (e_file e).
Definition kinds_ok (m : mfs) : Prop := ∀ p e, m_ents m !! p = Some e → kind_ok e.

Definition kind_of_entry (e : entry) : nkind := if e_link e then KLink else if e_dir e then KDir else KFile.

Definition node_of (e : entry) (d : option (list N)) : node :=
  mkNode (kind_of_entry e) (e_mode e) (e_uid e) (e_gid e) (default [] d) (e_alt e) (e_rel e) (e_link e && e_dir e).

Definition abs_nodes (m : mfs) : gmap (list (list N)) node :=
  map_imap (λ p e, Some (node_of e (m_data m !! p))) (m_ents m).
Definition abs (m : mfs) : tree := mkTree (m_cwd m) (abs_nodes m).

Lemma lookup_abs m p : t_nodes (abs m) !! p = (λ e, node_of e (m_data m !! p)) <$> (m_ents m !! p).
Proof. unfold abs, abs_nodes. cbn. rewrite map_lookup_imap. by destruct (m_ents m !! p). Qed.

Lemma lookup_abs_nodes m p : abs_nodes m !! p = (λ e, node_of e (m_data m !! p)) <$> (m_ents m !! p).
Proof. apply (lookup_abs m p). Qed.

Lemma tree_eq t1 t2 : t_cwd t1 = t_cwd t2 → (∀ p, t_nodes t1 !! p = t_nodes t2 !! p) → t1 = t2.
Proof. destruct t1, t2. cbn. intros -> H. f_equal. by apply map_eq. Qed.

(* entries that differ only in their child list look the same from outside *)
Lemma node_of_files e fs d : node_of (set_files e fs) d = node_of e d.
Proof. reflexivity. Qed.

Lemma entry_add_node pe n d : node_of (entry_add pe n).1 d = node_of pe d.
Proof. unfold entry_add. by destruct (e_files pe). Qed.

Lemma entry_remove_node pe n d : node_of (entry_remove pe n) d = node_of pe d.
Proof. unfold entry_remove. by destruct (e_files pe). Qed.

(* ---- mkfile ---- *)
Definition def_mode_file : N := e_mode (new_file []).
Definition def_uid : N := e_uid (new_file []).
Definition def_gid : N := e_gid (new_file []).

Theorem mkfile_refines m p : WF m → kinds_ok m →
  let '(m', r) := add m (new_file p) in
  abs m' = (spec_mkfile (abs m) p def_mode_file def_uid def_gid).1 ∧ r = (spec_mkfile (abs m) p def_mode_file def_uid def_gid).2.
Proof.
  intros HW HK. destruct p as [|base dir]; [done|].
  unfold add, spec_mkfile. cbn [e_path new_file e_file e_link e_dir].
  rewrite (lookup_abs m dir). destruct (m_ents m !! dir) as [pe|] eqn:Hpe; cbn [fmap option_fmap option_map]; [|done].
  cbn [node_of n_kind]. unfold kind_of_entry.
  destruct (e_link pe) eqn:Hl; cbn [negb orb andb].
  { rewrite orb_true_r. cbn. done. }
  rewrite orb_false_r. destruct (e_dir pe) eqn:Hd; cbn [negb]; [|cbn; done].
  rewrite (lookup_abs m (base :: dir)).
  destruct (m_ents m !! (base :: dir)) as [x|] eqn:Hx; cbn [fmap option_fmap option_map].
  - cbn [node_of n_kind]. unfold kind_of_entry. destruct (e_link x) eqn:Hxl; cbn [andb negb orb].
    + rewrite orb_true_r. cbn. done.
    + rewrite orb_false_r. rewrite (HK _ _ Hx).
      destruct (e_file x); cbn; done.
  - (* a new file *)
    cbn [negb andb]. set (m2 := upd_ents (upd_data m (insert (base :: dir) [])) (insert (base :: dir) (new_file (base :: dir)))).
    assert (Hpe2 : m_ents m2 !! dir = Some pe).
    { unfold m2. cbn. rewrite lookup_insert_ne; [done|]. intros E. apply (f_equal length) in E. cbn in E. lia. }
    rewrite Hpe2. destruct (entry_add pe base) as [pe' fr] eqn:Ea.
    assert (Hfresh : fr = true).
    { unfold entry_add in Ea. destruct (e_files pe) as [fs|] eqn:Ef.
      - simplify_eq. apply negb_true_iff, bool_decide_eq_false. intros Hin.
        assert (base ∈ files_of pe) by (unfold files_of; by rewrite Ef).
        destruct (wf_chl m HW _ _ _ Hpe H) as [? ?]. congruence.
      - by simplify_eq. }
    subst fr. split; [|done]. apply tree_eq; [done|]. intros q. cbn [fst t_nodes].
    rewrite lookup_abs. cbn [upd_ents m_ents m_data].
    assert (Hpe' : node_of pe' (m_data m2 !! dir) = node_of pe (m_data m !! dir)).
    { replace pe' with (entry_add pe base).1 by (by rewrite Ea). rewrite entry_add_node. f_equal. unfold m2. cbn.
      rewrite lookup_insert_ne; [done|]. intros E. apply (f_equal length) in E. cbn in E. lia. }
    destruct (decide (q = dir)) as [->|Hqd].
    + rewrite lookup_insert. cbn. rewrite !lookup_insert_ne by (intros E; apply (f_equal length) in E; cbn in E; lia).
      rewrite lookup_abs_nodes, Hpe. cbn. f_equal. unfold m2 in Hpe'. cbn in Hpe'.
      rewrite lookup_insert_ne in Hpe' by (intros E; apply (f_equal length) in E; cbn in E; lia). exact Hpe'.
    + rewrite lookup_insert_ne by done. unfold m2. cbn.
      destruct (decide (q = base :: dir)) as [->|Hqb].
      * rewrite !lookup_insert. cbn. reflexivity.
      * rewrite !lookup_insert_ne by done. rewrite lookup_abs_nodes. done.
Qed.

Lemma add_new_file_kinds m p : kinds_ok m → kinds_ok (add m (new_file p)).1.
Proof.
  intros HK. destruct p as [|base dir]; [done|]. unfold add. cbn [e_path new_file e_file e_link e_dir].
  destruct (m_ents m !! dir) as [pe|] eqn:Hpe; [|done].
  destruct (negb (e_dir pe) || e_link pe); [done|].
  destruct (m_ents m !! (base :: dir)) as [x|] eqn:Hx.
  { cbn. repeat case_match; done. }
  cbn [negb andb]. set (m2 := upd_ents _ _).
  assert (HK2 : kinds_ok m2).
  { intros q e Hq. unfold m2 in Hq. cbn in Hq. destruct (decide (q = base :: dir)) as [->|Hn].
    - rewrite lookup_insert in Hq. simplify_eq. reflexivity.
    - rewrite lookup_insert_ne in Hq by done. by eapply HK. }
  destruct (m_ents m2 !! dir) as [parent|] eqn:Hp2; [|exact HK2].
  destruct (entry_add parent base) as [pe' fr] eqn:Ea.
  assert (Hk' : kind_ok pe').
  { pose proof (HK2 _ _ Hp2) as H. unfold entry_add in Ea. destruct (e_files parent); simplify_eq; exact H. }
  assert (HK3 : kinds_ok (upd_ents m2 (insert dir pe'))).
  { intros q e Hq. cbn in Hq. destruct (decide (q = dir)) as [->|Hn]; [rewrite lookup_insert in Hq; by simplify_eq|].
    rewrite lookup_insert_ne in Hq by done. by eapply HK2. }
  destruct fr; exact HK3.
Qed.

(* after _add of a regular file that succeeded, the path is a regular file with data *)
Lemma add_file_present m p m' q : WF m → kinds_ok m → add m (new_file p) = (m', inl q) →
  ∃ e d, m_ents m' !! p = Some e ∧ e_file e = true ∧ e_link e = false ∧ m_data m' !! p = Some d.
Proof.
  intros HW HK. destruct p as [|base dir]; [done|]. unfold add. cbn [e_path new_file e_file e_link e_dir].
  destruct (m_ents m !! dir) as [pe|] eqn:Hpe; [|done].
  destruct (negb (e_dir pe) || e_link pe); [done|].
  destruct (m_ents m !! (base :: dir)) as [x|] eqn:Hx.
  - cbn [andb negb]. destruct (e_file x) eqn:Hf; cbn [negb orb]; [|done]. destruct (e_link x) eqn:Hl; cbn; [done|].
    intros H. simplify_eq. assert (is_Some (m_data m' !! (base :: dir))) as [d Hd] by (apply (wf_dat m' HW); eauto).
    exists x, d. done.
  - cbn [negb andb]. set (m2 := upd_ents _ _).
    assert (H2 : m_ents m2 !! (base :: dir) = Some (new_file (base :: dir)) ∧ m_data m2 !! (base :: dir) = Some []).
    { unfold m2. cbn. by rewrite !lookup_insert. }
    destruct H2 as [He2 Hd2].
    destruct (m_ents m2 !! dir) as [parent|]; [|intros H; simplify_eq; exists (new_file (base :: dir)), []; done].
    destruct (entry_add parent base) as [pe' fr]. destruct fr; [|done]. intros H. simplify_eq.
    exists (new_file (base :: dir)), []. cbn. rewrite lookup_insert_ne by (intros E; apply (f_equal length) in E; cbn in E; lia). done.
Qed.

(* replacing the bytes of an existing regular file *)
Lemma abs_set_data m p e d d0 : m_ents m !! p = Some e → m_data m !! p = Some d0 →
  abs (upd_data m (insert p d)) =
  mkTree (m_cwd m) (<[p := mkNode (kind_of_entry e) (e_mode e) (e_uid e) (e_gid e) d (e_alt e) (e_rel e) (e_link e && e_dir e)]> (abs_nodes m)).
Proof.
  intros He Hd. apply tree_eq; [done|]. intros q. cbn [t_nodes]. rewrite lookup_abs. cbn [upd_data m_ents m_data].
  destruct (decide (q = p)) as [->|Hn].
  - rewrite !lookup_insert, He. done.
  - rewrite !lookup_insert_ne by done. by rewrite lookup_abs_nodes.
Qed.

Theorem write_all_refines env m s d p : WF m → kinds_ok m → resolve env m s = inl p →
  let '(m', r) := write_all_op env m s d in
  abs m' = (spec_write_all (abs m) p def_mode_file def_uid def_gid d).1 ∧ r = (spec_write_all (abs m) p def_mode_file def_uid def_gid d).2.
Proof.
  intros HW HK Hr. unfold write_all_op, spec_write_all. rewrite Hr.
  pose proof (mkfile_refines m p HW HK) as Hmk. pose proof (add_wf m (new_file p) HW (fresh_new_file p)) as HW'.
  pose proof (add_file_present m p) as Hpres.
  destruct (add m (new_file p)) as [m' [q|e]] eqn:Ea; destruct Hmk as [Habs Hres].
  - destruct (spec_mkfile (abs m) p def_mode_file def_uid def_gid) as [t' rr] eqn:Es. cbn [fst snd] in *. subst rr t'.
    destruct (Hpres m' q HW HK eq_refl) as (e & d0 & He & Hf & Hl & Hd). rewrite Hd.
    rewrite lookup_abs, He. cbn [fmap option_fmap option_map node_of n_kind n_mode n_uid n_gid n_target n_rel n_tdir].
    split; [|done]. cbn [fst]. by rewrite (abs_set_data m' p e d d0 He Hd).
  - destruct (spec_mkfile (abs m) p def_mode_file def_uid def_gid) as [t' rr] eqn:Es. cbn [fst snd] in *. subst rr t'. done.
Qed.

Theorem append_all_refines env m s d p : WF m → kinds_ok m → resolve env m s = inl p →
  let '(m', r) := append_all_op env m s d in
  abs m' = (spec_append_all (abs m) p def_mode_file def_uid def_gid d).1 ∧ r = (spec_append_all (abs m) p def_mode_file def_uid def_gid d).2.
Proof.
  intros HW HK Hr. unfold append_all_op, spec_append_all. rewrite Hr.
  pose proof (mkfile_refines m p HW HK) as Hmk. pose proof (add_wf m (new_file p) HW (fresh_new_file p)) as HW'.
  pose proof (add_file_present m p) as Hpres.
  destruct (add m (new_file p)) as [m' [q|e]] eqn:Ea; destruct Hmk as [Habs Hres].
  - destruct (spec_mkfile (abs m) p def_mode_file def_uid def_gid) as [t' rr] eqn:Es. cbn [fst snd] in *. subst rr t'.
    destruct (Hpres m' q HW HK eq_refl) as (e & d0 & He & Hf & Hl & Hd). rewrite Hd.
    rewrite lookup_abs, He. cbn [fmap option_fmap option_map node_of n_kind n_mode n_uid n_gid n_target n_rel n_tdir n_data].
    rewrite Hd. cbn [default]. split; [|done]. cbn [fst]. by rewrite (abs_set_data m' p e (d0 ++ d) d0 He Hd).
  - destruct (spec_mkfile (abs m) p def_mode_file def_uid def_gid) as [t' rr] eqn:Es. cbn [fst snd] in *. subst rr t'. done.
Qed.

(* reading returns the reference tree's bytes *)
Theorem read_refines env m s p : WF m → kinds_ok m → resolve env m s = inl p → clone_file env m s = spec_read (abs m) p.
Proof.
  intros HW HK Hr. unfold clone_file, spec_read. rewrite Hr, lookup_abs.
  destruct (m_ents m !! p) as [f|] eqn:Hf; cbn [fmap option_fmap option_map].
  - cbn [node_of n_kind n_data n_tdir]. unfold kind_of_entry. pose proof (HK _ _ Hf) as Hk. unfold kind_ok in Hk.
    assert (Hnodata : e_link f = true → m_data m !! p = None).
    { intros Hl. destruct (m_data m !! p) eqn:Ed; [|done]. assert (is_Some (m_data m !! p)) as Hs by eauto.
      apply (wf_dat m HW) in Hs as (e0 & H0 & _ & Hl0). congruence. }
    destruct (e_link f) eqn:Hl; cbn [andb].
    + rewrite (Hnodata eq_refl). destruct (e_file f); cbn in *; rewrite Hk; done.
    + destruct (e_file f) eqn:Hfi; cbn in *; rewrite Hk; cbn; [|done].
      assert (is_Some (m_data m !! p)) as [d Hd] by (apply (wf_dat m HW); eauto). by rewrite Hd.
  - destruct (m_data m !! p) eqn:Ed; [|done]. assert (is_Some (m_data m !! p)) as Hs by eauto.
    apply (wf_dat m HW) in Hs as (e0 & H0 & _). congruence.
Qed.

(* set_cwd *)
Theorem set_cwd_refines env m s p : WF m → kinds_ok m → resolve env m s = inl p →
  let '(m', r) := set_cwd_op env m s in abs m' = (spec_set_cwd (abs m) p).1 ∧ r = (spec_set_cwd (abs m) p).2.
Proof.
  intros HW HK Hr. unfold set_cwd_op, spec_set_cwd. rewrite Hr, lookup_abs.
  destruct (m_ents m !! p) as [x|] eqn:Hx; cbn [fmap option_fmap option_map]; [|done].
  cbn [node_of n_kind n_tdir n_target]. unfold kind_of_entry. pose proof (HK _ _ Hx) as Hk. unfold kind_ok in Hk.
  destruct (e_link x) eqn:Hl; cbn [andb].
  - destruct (e_dir x) eqn:Hd; cbn; [|done]. split; [|done]. by apply tree_eq.
  - destruct (e_dir x) eqn:Hd; cbn; [|done]. split; [|done]. by apply tree_eq.
Qed.

(* queries see the same tree *)
Theorem queries_refine m p : kinds_ok m →
  bool_decide (is_Some (m_ents m !! p)) = spec_exists (abs m) p ∧
  is_dir_at m p = spec_is_dir (abs m) p ∧ is_file_at m p = spec_is_file (abs m) p ∧ is_symlink_at m p = spec_is_symlink (abs m) p.
Proof.
  intros HK. unfold spec_exists, spec_is_dir, t_is_dir, spec_is_file, spec_is_symlink, is_dir_at, is_file_at, is_symlink_at.
  rewrite lookup_abs. destruct (m_ents m !! p) as [x|] eqn:Hx; cbn [fmap option_fmap option_map].
  - pose proof (HK _ _ Hx) as Hk. unfold kind_ok in Hk. cbn [node_of n_kind]. unfold kind_of_entry.
    split; [apply bool_decide_ext; split; eauto|].
    destruct (e_link x), (e_file x); cbn in *; rewrite Hk; done.
  - split; [apply bool_decide_ext; split; intros [? ?]; done|]. done.
Qed.

(* ---- remove ---- *)
Lemma has_child_files m p e : WF m → m_ents m !! p = Some e →
  t_has_child (abs m) p = match e_files e with Some fs => negb (bool_decide (fs = ∅)) | None => false end.
Proof.
  intros HW He. unfold t_has_child.
  assert (Hiff : map_Exists (λ q _, child_of p q) (t_nodes (abs m)) ↔ files_of e ≠ ∅).
  { split.
    - intros (q & n & Hq & Hc). destruct q as [|c d]; [done|]. cbn in Hc. subst d.
      rewrite lookup_abs in Hq. destruct (m_ents m !! (c :: p)) as [ce|] eqn:Hce; [|by cbn in Hq].
      destruct (wf_par m HW _ _ _ Hce) as (pe & Hpe & _ & Hin). assert (pe = e) as -> by congruence. set_solver.
    - intros Hne. apply set_choose_L in Hne as [c Hc]. destruct (wf_chl m HW _ _ _ He Hc) as [ce Hce].
      exists (c :: p), (node_of ce (m_data m !! (c :: p))). split; [|done]. rewrite lookup_abs, Hce. done. }
  unfold files_of in Hiff. destruct (e_files e) as [fs|]; cbn in Hiff.
  - destruct (decide (fs = ∅)) as [Heq|Hn].
    + assert (bool_decide (fs = ∅) = true) as -> by (by apply bool_decide_eq_true_2).
      cbn. apply bool_decide_eq_false. intros H. by apply Hiff in H.
    + assert (bool_decide (fs = ∅) = false) as -> by (by apply bool_decide_eq_false_2).
      cbn. apply bool_decide_eq_true. by apply Hiff.
  - apply bool_decide_eq_false. intros H. by apply Hiff in H.
Qed.

Theorem remove_refines env m s p : WF m → kinds_ok m → resolve env m s = inl p →
  let '(m', r) := remove_op env m s in abs m' = (spec_remove (abs m) p).1 ∧ r = (spec_remove (abs m) p).2.
Proof.
  intros HW HK Hr. unfold remove_op, spec_remove. rewrite Hr, lookup_abs.
  destruct (m_ents m !! p) as [e|] eqn:He; cbn [fmap option_fmap option_map].
  2:{ rewrite bool_decide_eq_false_2 by (intros [? ?]; done). cbn. done. }
  rewrite bool_decide_eq_true_2 by eauto. cbn [negb]. rewrite (has_child_files m p e HW He).
  destruct (match e_files e with Some fs => negb (bool_decide (fs = ∅)) | None => false end); [done|].
  destruct p as [|base dir]; [done|].
  destruct (wf_par m HW _ _ _ He) as (pe & Hpe & (Hpd & Hpl) & Hin). rewrite Hpe, Hpd.
  assert (Hne : dir ≠ base :: dir) by (intros E; apply (f_equal length) in E; cbn in E; lia).
  cbn [upd_ents m_ents]. rewrite lookup_insert_ne by done. rewrite He.
  split; [|done]. apply tree_eq; [by destruct (e_file e)|]. intros q. cbn [fst t_nodes].
  rewrite lookup_abs.
  set (mm := if e_file e then _ else _).
  assert (Hents : m_ents (upd_ents mm (delete (base :: dir))) = delete (base :: dir) (<[dir := entry_remove pe base]> (m_ents m)))
    by (unfold mm; by destruct (e_file e)).
  assert (Hdata : ∀ k, k ≠ base :: dir → m_data (upd_ents mm (delete (base :: dir))) !! k = m_data m !! k).
  { intros k Hk. unfold mm. destruct (e_file e); cbn; [by rewrite lookup_delete_ne | done]. }
  rewrite Hents.
  destruct (decide (q = base :: dir)) as [->|Hq].
  - by rewrite !lookup_delete.
  - rewrite !lookup_delete_ne by done. rewrite Hdata by done. rewrite lookup_abs.
    destruct (decide (q = dir)) as [->|Hqd].
    + rewrite lookup_insert, Hpe. cbn. by rewrite entry_remove_node.
    + by rewrite lookup_insert_ne.
Qed.

(* ---- creating an entry at a free path under a real directory (shared by mkdir and symlink) ---- *)
Lemma add_absent m e base dir pe : WF m → e_path e = base :: dir → m_ents m !! dir = Some pe → e_dir pe = true → e_link pe = false →
  m_ents m !! (base :: dir) = None →
  ∃ m', add m e = (m', inl (base :: dir)) ∧ m_cwd m' = m_cwd m ∧ abs_nodes m' = <[base :: dir := node_of e None]> (abs_nodes m).
Proof.
  intros HW Hp Hpe Hd Hl Hx. unfold add. rewrite Hp, Hpe, Hd, Hl, Hx. cbn [negb orb].
  set (m1 := if negb (e_link e) && e_file e then _ else m).
  assert (Hm1e : m_ents m1 = m_ents m) by (unfold m1; by destruct (_ && _)).
  assert (Hne : dir ≠ base :: dir) by (intros E; apply (f_equal length) in E; cbn in E; lia).
  assert (Hpe2 : m_ents (upd_ents m1 (insert (base :: dir) e)) !! dir = Some pe) by (cbn; rewrite lookup_insert_ne by done; by rewrite Hm1e).
  rewrite Hpe2. destruct (entry_add pe base) as [pe' fr] eqn:Ea.
  assert (Hfresh : fr = true).
  { unfold entry_add in Ea. destruct (e_files pe) as [fs|] eqn:Ef; [|by simplify_eq].
    simplify_eq. apply negb_true_iff, bool_decide_eq_false. intros Hin.
    assert (base ∈ files_of pe) by (unfold files_of; by rewrite Ef). destruct (wf_chl m HW _ _ _ Hpe H) as [? ?]. congruence. }
  subst fr. eexists. split; [reflexivity|]. split; [unfold m1; by destruct (_ && _)|].
  apply map_eq. intros q. rewrite lookup_abs_nodes. cbn [upd_ents m_ents m_data].
  assert (Hdata : ∀ k, k ≠ base :: dir → m_data m1 !! k = m_data m !! k).
  { intros k Hk. unfold m1. destruct (_ && _); cbn; [by rewrite lookup_insert_ne | done]. }
  destruct (decide (q = dir)) as [->|Hqd].
  - rewrite lookup_insert. cbn. rewrite lookup_insert_ne by done. rewrite lookup_abs_nodes, Hpe. cbn.
    replace pe' with (entry_add pe base).1 by (by rewrite Ea). rewrite entry_add_node. by rewrite Hdata.
  - rewrite lookup_insert_ne by done. destruct (decide (q = base :: dir)) as [->|Hqb].
    + rewrite !lookup_insert. cbn. f_equal. unfold node_of. f_equal. unfold m1. destruct (_ && _); cbn; [by rewrite lookup_insert|].
      destruct (m_data m !! (base :: dir)) eqn:Ed; [|done]. assert (is_Some (m_data m !! (base :: dir))) as Hs by eauto.
      apply (wf_dat m HW) in Hs as (e0 & H0 & _). congruence.
    + rewrite !lookup_insert_ne by done. rewrite Hm1e, Hdata by done. by rewrite lookup_abs_nodes.
Qed.

(* ---- mkdir ---- *)
Definition def_mode_dir (mode : option N) : N := e_mode (new_dir [] mode).

Theorem mkdir1_refines m p mode : WF m → kinds_ok m →
  let '(m', r) := add m (new_dir p mode) in
  abs m' = (spec_mkdir1 (abs m) p (def_mode_dir mode) def_uid def_gid).1 ∧ r = (spec_mkdir1 (abs m) p (def_mode_dir mode) def_uid def_gid).2.
Proof.
  intros HW HK. destruct p as [|base dir]; [done|].
  unfold spec_mkdir1. rewrite (lookup_abs m dir).
  destruct (m_ents m !! dir) as [pe|] eqn:Hpe; cbn [fmap option_fmap option_map].
  2:{ unfold add. cbn [e_path new_dir]. by rewrite Hpe. }
  cbn [node_of n_kind]. unfold kind_of_entry.
  destruct (e_link pe) eqn:Hl.
  { unfold add. cbn [e_path new_dir]. rewrite Hpe, Hl. by rewrite orb_true_r. }
  destruct (e_dir pe) eqn:Hd.
  2:{ unfold add. cbn [e_path new_dir]. rewrite Hpe, Hd. done. }
  rewrite (lookup_abs m (base :: dir)).
  destruct (m_ents m !! (base :: dir)) as [x|] eqn:Hx; cbn [fmap option_fmap option_map].
  - unfold add. cbn [e_path new_dir e_file e_link e_dir]. rewrite Hpe, Hd, Hl, Hx. cbn [negb orb andb].
    cbn [node_of n_kind]. unfold kind_of_entry. destruct (e_link x) eqn:Hxl; cbn [andb negb orb].
    + by rewrite orb_true_r.
    + rewrite orb_false_r. pose proof (HK _ _ Hx) as Hk. unfold kind_ok in Hk. destruct (e_dir x); cbn; done.
  - destruct (add_absent m (new_dir (base :: dir) mode) base dir pe HW eq_refl Hpe Hd Hl Hx) as (m' & Ha & Hc & Hn).
    rewrite Ha. split; [|done]. apply tree_eq; [done|]. intros q. cbn [fst t_nodes]. change (t_nodes (abs m')) with (abs_nodes m'). by rewrite Hn.
Qed.

Theorem mkdirs_refine ps : ∀ m mode, WF m → kinds_ok m →
  let '(m', r) := mkdir_loop m ps mode in
  abs m' = (spec_mkdirs (abs m) ps (def_mode_dir mode) def_uid def_gid).1 ∧ r = (spec_mkdirs (abs m) ps (def_mode_dir mode) def_uid def_gid).2.
Proof.
  induction ps as [|p ps IH]; intros m mode HW HK; cbn [mkdir_loop spec_mkdirs]; [done|].
  pose proof (mkdir1_refines m p mode HW HK) as H1.
  pose proof (add_wf m (new_dir p mode) HW (fresh_new_dir p mode)) as HW'.
  assert (HK' : kinds_ok (add m (new_dir p mode)).1).
  { unfold add. destruct (e_path (new_dir p mode)) as [|b d] eqn:Hp; [by destruct (e_file _)|].
    destruct (m_ents m !! d) as [pe|] eqn:Hpe; [|done]. destruct (negb (e_dir pe) || e_link pe); [done|].
    destruct (m_ents m !! (b :: d)) as [x|]; [repeat case_match; done|].
    cbn [e_link e_file new_dir negb andb].
    set (m2 := upd_ents m (insert (b :: d) (new_dir p mode))).
    assert (HK2 : kinds_ok m2).
    { intros q e Hq. unfold m2 in Hq. cbn in Hq. destruct (decide (q = b :: d)) as [->|Hn]; [rewrite lookup_insert in Hq; by simplify_eq|].
      rewrite lookup_insert_ne in Hq by done. by eapply HK. }
    destruct (m_ents m2 !! d) as [parent|] eqn:Hp2; [|exact HK2].
    destruct (entry_add parent b) as [pe' fr] eqn:Ea.
    assert (kinds_ok (upd_ents m2 (insert d pe'))).
    { intros q e Hq. cbn in Hq. destruct (decide (q = d)) as [->|Hn].
      - rewrite lookup_insert in Hq. simplify_eq. pose proof (HK2 _ _ Hp2) as Hk. unfold entry_add in Ea. destruct (e_files parent); simplify_eq; exact Hk.
      - rewrite lookup_insert_ne in Hq by done. by eapply HK2. }
    by destruct fr. }
  destruct (add m (new_dir p mode)) as [m1 [q|e]]; destruct H1 as [Ha Hr];
    destruct (spec_mkdir1 (abs m) p (def_mode_dir mode) def_uid def_gid) as [t1 r1]; cbn [fst snd] in *; subst.
  - specialize (IH m1 mode HW' HK'). destruct (mkdir_loop m1 ps mode). exact IH.
  - done.
Qed.

Theorem mkdir_p_refines m p mode : WF m → kinds_ok m →
  let '(m', r) := mkdir_m_abs m p mode in
  abs m' = (spec_mkdirs (abs m) ([] :: prefixes (rev p) []) (def_mode_dir mode) def_uid def_gid).1 ∧
  r = (spec_mkdirs (abs m) ([] :: prefixes (rev p) []) (def_mode_dir mode) def_uid def_gid).2.
Proof. intros HW HK. exact (mkdirs_refine ([] :: prefixes (rev p) []) m mode HW HK). Qed.

(* ---- symlink ---- *)
Theorem symlink_refines m lp tp : WF m → kinds_ok m →
  let to_dir := match m_ents m !! tp with Some x => e_dir x | None => false end in
  let e := new_link lp tp to_dir in
  let '(m', r) := if bool_decide (is_Some (m_ents m !! lp)) then (m, inr EExistsAlready)
                  else match lp with [] => (m, inr EParentNotFound) | _ => add m e end in
  abs m' = (spec_symlink (abs m) lp tp (e_mode e) def_uid def_gid (e_rel e)).1 ∧
  r = (spec_symlink (abs m) lp tp (e_mode e) def_uid def_gid (e_rel e)).2.
Proof.
  intros HW HK. cbn zeta. unfold spec_symlink. rewrite (lookup_abs m lp).
  destruct (m_ents m !! lp) as [y|] eqn:Hy; cbn [fmap option_fmap option_map].
  { rewrite bool_decide_eq_true_2 by eauto. done. }
  rewrite bool_decide_eq_false_2 by (intros [? ?]; done).
  destruct lp as [|base dir]; [done|]. rewrite (lookup_abs m dir).
  destruct (m_ents m !! dir) as [pe|] eqn:Hpe; cbn [fmap option_fmap option_map].
  2:{ unfold add. cbn [e_path new_link]. by rewrite Hpe. }
  cbn [node_of n_kind]. unfold kind_of_entry.
  destruct (e_link pe) eqn:Hl.
  { unfold add. cbn [e_path new_link]. rewrite Hpe, Hl. by rewrite orb_true_r. }
  destruct (e_dir pe) eqn:Hd.
  2:{ unfold add. cbn [e_path new_link]. rewrite Hpe, Hd. done. }
  set (to_dir := match m_ents m !! tp with Some x => e_dir x | None => false end).
  destruct (add_absent m (new_link (base :: dir) tp to_dir) base dir pe HW eq_refl Hpe Hd Hl Hy) as (m' & Ha & Hc & Hn).
  rewrite Ha. split; [|done]. apply tree_eq; [done|]. intros q. cbn [fst t_nodes]. change (t_nodes (abs m')) with (abs_nodes m'). rewrite Hn.
  destruct (decide (q = base :: dir)) as [->|Hq]; [|by rewrite !lookup_insert_ne].
  rewrite !lookup_insert. f_equal. unfold node_of, link_node. cbn [kind_of_entry new_link e_link e_mode e_uid e_gid e_alt e_rel e_dir andb default].
  f_equal. rewrite (lookup_abs m tp). unfold to_dir. destruct (m_ents m !! tp) as [x|] eqn:Hx; cbn [fmap option_fmap option_map]; [|done].
  cbn [node_of n_kind n_tdir]. unfold kind_of_entry. pose proof (HK _ _ Hx) as Hk. unfold kind_ok in Hk.
  destruct (e_link x), (e_dir x); done.
Qed.

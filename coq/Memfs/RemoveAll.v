(* Memfs/RemoveAll.v — remove_all: what it removes, what it leaves, and that it finishes within its fuel (C01 / C09 / C12).
   The loop is a depth-first traversal with an explicit stack: a directory with children is pushed back underneath its
   children and meets them gone when it comes up again. Every intermediate state is well formed (only leaves are ever
   unlinked), so the proof follows the recursion: removing the subtree at the head of the stack takes t steps, leaves the
   rest of the stack alone, and t is at most twice the number of entries removed. *)
From stdpp Require Import gmap.
From Coq Require Import NArith.
From RV Require Import Base.Str Path.Helpers Path.Expand Memfs.State Memfs.Ops Memfs.Wf Memfs.WfMove.

Definition unlink (m : mfs) (b : list N) (d : rpath) (pe : entry) : mfs :=
  upd_ents (upd_data (upd_ents m (insert d (entry_remove pe b))) (delete (b :: d))) (delete (b :: d)).

(* ---- the three kinds of step ---- *)
Lemma step_absent f m p R : m_ents m !! p = None → remove_all_loop (S f) m (p :: R) = remove_all_loop f m R.
Proof. intros H. cbn [remove_all_loop]. by rewrite H. Qed.

Lemma step_expand f m p R e k ks : m_ents m !! p = Some e → kids_of e = k :: ks →
  remove_all_loop (S f) m (p :: R) = remove_all_loop f m (map (λ n, n :: p) (k :: ks) ++ p :: R).
Proof. intros H Hk. cbn [remove_all_loop]. rewrite H. unfold kids_of in Hk. by rewrite Hk. Qed.

Lemma step_leaf f m b d R e pe : m_ents m !! (b :: d) = Some e → kids_of e = [] → m_ents m !! d = Some pe → e_dir pe = true →
  remove_all_loop (S f) m ((b :: d) :: R) = remove_all_loop f (unlink m b d pe) R.
Proof. intros H Hk Hpe Hd. cbn [remove_all_loop]. rewrite H. unfold kids_of in Hk. rewrite Hk, Hpe, Hd. reflexivity. Qed.

Lemma kids_nil_files e : kids_of e = [] → files_of e = ∅.
Proof.
  unfold kids_of, files_of. destruct (e_files e) as [fs|]; cbn; [|done]. intros H. apply elements_empty_inv in H. by apply leibniz_equiv.
Qed.

(* ---- what removing the subtree at k does to the indexes ---- *)
Definition rm_e (m : mfs) (k : rpath) (q : rpath) : option entry :=
  if decide (k `suffix_of` q) then None
  else if decide (q = tail k) then (λ pe, entry_remove pe (hd [] k)) <$> (m_ents m !! q)
  else m_ents m !! q.
Definition rm_d (m : mfs) (k : rpath) (q : rpath) : option (list N) :=
  if decide (k `suffix_of` q) then None else m_data m !! q.

Definition removed (m : mfs) (k : rpath) (m' : mfs) : Prop :=
  (∀ q, m_ents m' !! q = rm_e m k q) ∧ (∀ q, m_data m' !! q = rm_d m k q) ∧ m_cwd m' = m_cwd m ∧ m_root m' = m_root m.

(* a leaf *)
Lemma unlink_removed m b d e pe : WF m → m_ents m !! (b :: d) = Some e → files_of e = ∅ → m_ents m !! d = Some pe →
  removed m (b :: d) (unlink m b d pe) ∧ size (m_ents (unlink m b d pe)) + 1 = size (m_ents m).
Proof.
  intros HW He Hleaf Hpe.
  assert (Hne : d ≠ b :: d) by (intros E; apply (f_equal length) in E; cbn in E; lia).
  pose proof (nothing_under m (b :: d) HW ltac:(intros y Hy; by simplify_eq)) as Hnu.
  split; [split; [|split; [|done]]|].
  - intros q. unfold rm_e, unlink. cbn [upd_ents upd_data m_ents tail hd].
    destruct (decide ((b :: d) `suffix_of` q)) as [Hs|Hs].
    + destruct (decide (q = b :: d)) as [->|Hq]; [by rewrite lookup_delete|].
      rewrite lookup_delete_ne by done. assert (q ≠ d) by (intros ->; apply suffix_length in Hs; cbn in Hs; lia).
      rewrite lookup_insert_ne by done. by apply Hnu.
    + assert (q ≠ b :: d) by (intros ->; by apply Hs). rewrite lookup_delete_ne by done.
      destruct (decide (q = d)) as [->|Hqd]; [rewrite lookup_insert, Hpe; done | by rewrite lookup_insert_ne].
  - intros q. unfold rm_d, unlink. cbn [upd_ents upd_data m_data].
    destruct (decide ((b :: d) `suffix_of` q)) as [Hs|Hs].
    + destruct (decide (q = b :: d)) as [->|Hq]; [by rewrite lookup_delete|]. rewrite lookup_delete_ne by done.
      destruct (m_data m !! q) eqn:Ed; [|done]. assert (is_Some (m_data m !! q)) as H by eauto.
      apply (wf_dat m HW) in H as (e0 & H0 & _). rewrite (Hnu q Hs Hq) in H0. done.
    + assert (q ≠ b :: d) by (intros ->; by apply Hs). by rewrite lookup_delete_ne.
  - unfold unlink. cbn [upd_ents upd_data m_ents]. rewrite map_size_delete. rewrite lookup_insert_ne by done. rewrite He. cbn.
    rewrite map_size_insert_Some by eauto. destruct (size (m_ents m)) eqn:Es; [|lia].
    apply map_size_empty_inv in Es. rewrite Es in He. by rewrite lookup_empty in He.
Qed.

(* ---- the recursion ---- *)
Definition bounded (m : mfs) (p : rpath) (h : nat) : Prop :=
  ∀ q, p `suffix_of` q → is_Some (m_ents m !! q) → length q ≤ length p + h.

Lemma kids_spec e n : n ∈ kids_of e ↔ n ∈ files_of e.
Proof. unfold kids_of, files_of. destruct (e_files e); cbn; [apply elem_of_elements | set_solver]. Qed.

Lemma files_nil_kids e : files_of e = ∅ → kids_of e = [].
Proof. unfold kids_of, files_of. destruct (e_files e) as [fs|]; cbn; [|done]. intros ->. apply elements_empty. Qed.

Lemma removed_keys m k m' q : removed m k m' → is_Some (m_ents m' !! q) → is_Some (m_ents m !! q).
Proof.
  intros (He & _) Hs. rewrite He in Hs. unfold rm_e in Hs. repeat case_decide; [by destruct Hs | | done].
  destruct (m_ents m !! q); [eauto | by destruct Hs].
Qed.

Definition dfs_stmt (h : nat) : Prop := ∀ m p R e, WF m → m_ents m !! p = Some e → p ≠ [] → bounded m p h →
  ∃ t m', 1 ≤ t ∧ (∀ fuel, t ≤ fuel → remove_all_loop fuel m (p :: R) = remove_all_loop (fuel - t) m' R) ∧
          t + 2 * size (m_ents m') ≤ 2 * size (m_ents m) ∧ WF m' ∧ removed m p m'.

(* the children of p, one subtree after the other; p itself stays, listing the children not yet removed *)
Lemma kids_loop h (IH : dfs_stmt h) p : ∀ cs m1 e1 R', WF m1 → m_ents m1 !! p = Some e1 → NoDup cs → (∀ c, c ∈ cs → c ∈ files_of e1) → bounded m1 p (S h) →
                ∃ t m2 e2, (∀ fuel, t ≤ fuel → remove_all_loop fuel m1 (map (λ n, n :: p) cs ++ R') = remove_all_loop (fuel - t) m2 R') ∧
                  t + 2 * size (m_ents m2) ≤ 2 * size (m_ents m1) ∧ WF m2 ∧ m_ents m2 !! p = Some e2 ∧
                  files_of e2 = files_of e1 ∖ list_to_set cs ∧
                  (∀ q, ¬ p `suffix_of` q → m_ents m2 !! q = m_ents m1 !! q ∧ m_data m2 !! q = m_data m1 !! q) ∧
                  (∀ q, is_Some (m_ents m2 !! q) → is_Some (m_ents m1 !! q)) ∧ m_cwd m2 = m_cwd m1 ∧ m_root m2 = m_root m1.
Proof.
  induction cs as [|c cs IHc]; intros m1 e1 R' HW1 He1 Hnd Hin Hb1.
        - exists 0, m1, e1. split; [intros fuel _; cbn [map app]; f_equal; lia|]. split; [lia|]. split; [done|]. split; [done|].
          split; [cbn; set_solver|]. done.
        - apply NoDup_cons in Hnd as [Hc Hnd].
          destruct (wf_chl m1 HW1 _ _ _ He1 (Hin c ltac:(left))) as [ce Hce].
          assert (Hbk : bounded m1 (c :: p) h).
          { intros q Hq Hs. specialize (Hb1 q ltac:(by eapply suffix_cons_l) Hs). cbn. lia. }
          destruct (IH m1 (c :: p) (map (λ n, n :: p) cs ++ R') ce HW1 Hce ltac:(done) Hbk) as (t1 & m1' & Ht1 & Hf1 & Hs1 & HW1' & Hr1).
          destruct Hr1 as (Hre & Hrd & Hrc & Hrr).
          assert (He1' : m_ents m1' !! p = Some (entry_remove e1 c)).
          { rewrite Hre. unfold rm_e. cbn [tail hd]. rewrite decide_False by (intros H; apply suffix_length in H; cbn in H; lia).
            rewrite decide_True by done. by rewrite He1. }
          assert (Hb1' : bounded m1' p (S h)).
          { intros q Hq Hs. apply Hb1; [done|]. eapply removed_keys; [|exact Hs]. done. }
          destruct (IHc m1' (entry_remove e1 c) R' HW1' He1' Hnd) as (t2 & m2 & e2 & Hf2 & Hs2 & HW2 & He2 & Hfs2 & Hsame2 & Hkeys2 & Hc2 & Hr2).
          { intros c' Hc'. rewrite files_of_entry_remove. apply elem_of_difference. split; [apply Hin; by right|]. set_solver. }
          { exact Hb1'. }
          exists (t1 + t2), m2, e2. split.
          { intros fuel Hf. cbn [map app]. rewrite (Hf1 fuel ltac:(lia)). rewrite (Hf2 (fuel - t1) ltac:(lia)). f_equal. lia. }
          split; [lia|]. split; [done|]. split; [done|]. split.
          { rewrite Hfs2, files_of_entry_remove. cbn [list_to_set]. set_solver. }
          split.
          { intros q Hq. destruct (Hsame2 q Hq) as [A B]. rewrite A, B, Hre, Hrd. unfold rm_e, rm_d. cbn [tail hd].
            destruct (decide (c :: p `suffix_of` q)) as [H|_]; [exfalso; apply Hq; by eapply suffix_cons_l|].
            destruct (decide (q = p)) as [->|_]; [exfalso; apply Hq; reflexivity|]. done. }
          split; [intros q Hs; eapply removed_keys; [done|]; by apply Hkeys2|]. split; congruence. 
Qed.

Lemma dfs h : dfs_stmt h.
Proof.
  unfold dfs_stmt. induction h as [|h IH]; intros m p R e HW He Hp Hb.
  - (* no room below p: it is a leaf *)
    assert (Hk : kids_of e = []).
    { destruct (kids_of e) as [|c cs] eqn:Ek; [done|]. exfalso.
      assert (H : c ∈ files_of e) by (apply (proj1 (kids_spec e c)); rewrite Ek; left).
      destruct (wf_chl m HW _ _ _ He H) as [ce Hce]. specialize (Hb (c :: p) ltac:(by apply suffix_cons_r) ltac:(eauto)). cbn in Hb. lia. }
    destruct p as [|b d]; [done|]. destruct (wf_par m HW _ _ _ He) as (pe & Hpe & (Hpd & _) & _).
    destruct (unlink_removed m b d e pe HW He (kids_nil_files e Hk) Hpe) as [Hr Hs].
    exists 1, (unlink m b d pe). split; [done|]. split; [|split; [lia|split; [by eapply unlink_leaf_wf; eauto using kids_nil_files | done]]].
    intros fuel Hf. destruct fuel as [|f]; [lia|]. rewrite (step_leaf f m b d R e pe He Hk Hpe Hpd). f_equal. lia.
  - destruct (kids_of e) as [|c0 cs0] eqn:Ek.
    + (* a leaf *)
      destruct p as [|b d]; [done|]. destruct (wf_par m HW _ _ _ He) as (pe & Hpe & (Hpd & _) & _).
      destruct (unlink_removed m b d e pe HW He (kids_nil_files e Ek) Hpe) as [Hr Hs].
      exists 1, (unlink m b d pe). split; [done|]. split; [|split; [lia|split; [by eapply unlink_leaf_wf; eauto using kids_nil_files | done]]].
      intros fuel Hf. destruct fuel as [|f]; [lia|]. rewrite (step_leaf f m b d R e pe He Ek Hpe Hpd). f_equal. lia.
    + (* a directory with children: they go first, one subtree after the other *)
      assert (Hall : ∀ c, c ∈ c0 :: cs0 → c ∈ files_of e).
      { intros c Hc. apply (proj1 (kids_spec e c)). by rewrite Ek. }
      destruct (kids_loop h IH p (c0 :: cs0) m e (p :: R) HW He ltac:(rewrite <- Ek; apply kids_of_nodup) Hall Hb)
        as (t1 & m2 & e2 & Hf1 & Hs1 & HW2 & He2 & Hfs2 & Hsame2 & Hkeys2 & Hc2 & Hr2).
      (* now p is a leaf *)
      assert (Hleaf2 : files_of e2 = ∅).
      { rewrite Hfs2. apply leibniz_equiv. intros c. split; [|set_solver]. intros Hc. apply elem_of_difference in Hc as [Hd1 Hd2]. exfalso. apply Hd2.
        apply elem_of_list_to_set. rewrite <- Ek. by apply (proj2 (kids_spec e c)). }
      destruct p as [|b d]; [done|]. destruct (wf_par m2 HW2 _ _ _ He2) as (pe2 & Hpe2 & (Hpd2 & _) & _).
      destruct (unlink_removed m2 b d e2 pe2 HW2 He2 Hleaf2 Hpe2) as [(Hre & Hrd & Hrc & Hrr) Hsz].
      exists (1 + t1 + 1), (unlink m2 b d pe2). split; [lia|]. split.
      { intros fuel Hf. destruct fuel as [|f]; [lia|]. rewrite (step_expand f m (b :: d) R e c0 cs0 He Ek).
        rewrite (Hf1 f ltac:(lia)). destruct (f - t1) as [|f2] eqn:Ef; [lia|].
        rewrite (step_leaf f2 m2 b d R e2 pe2 He2 (files_nil_kids e2 Hleaf2) Hpe2 Hpd2). f_equal. lia. }
      split; [lia|]. split; [by eapply unlink_leaf_wf; eauto|].
      split; [|split; [|split; congruence]].
      * intros q. rewrite Hre. unfold rm_e. cbn [tail hd]. destruct (decide ((b :: d) `suffix_of` q)) as [Hq|Hq]; [done|].
        destruct (Hsame2 q Hq) as [A _]. by rewrite A.
      * intros q. rewrite Hrd. unfold rm_d. destruct (decide ((b :: d) `suffix_of` q)) as [Hq|Hq]; [done|].
        destruct (Hsame2 q Hq) as [_ B]. by rewrite B.
Qed.

(* ---- the whole call ---- *)
Lemma height_bound (E : gmap rpath entry) : ∃ h, ∀ q, is_Some (E !! q) → length q ≤ h.
Proof.
  induction E as [|k x E Hk [h IH]] using map_ind.
  - exists 0. intros q Hq. rewrite lookup_empty in Hq. by destruct Hq.
  - exists (max h (length k)). intros q Hq. destruct (decide (q = k)) as [->|Hne]; [lia|].
    rewrite lookup_insert_ne in Hq by done. specialize (IH q Hq). lia.
Qed.

Lemma bounded_any m p : ∃ h, bounded m p h.
Proof. destruct (height_bound (m_ents m)) as [h Hh]. exists h. intros q _ Hq. specialize (Hh q Hq). lia. Qed.

Lemma remove_all_loop_present m p : WF m → p ≠ [] → is_Some (m_ents m !! p) →
  ∃ m', remove_all_loop (2 * size (m_ents m) + 2) m [p] = Done (m', inl tt) ∧ removed m p m' ∧ WF m'.
Proof.
  intros HW Hp [e He]. destruct (bounded_any m p) as [h Hb].
  destruct (dfs h m p [] e HW He Hp Hb) as (t & m' & Ht & Hf & Hs & HW' & Hr).
  exists m'. split; [|done]. set (n := size (m_ents m)) in *. set (n' := size (m_ents m')) in *.
  rewrite (Hf (2 * n + 2) ltac:(lia)).
  destruct (2 * n + 2 - t) as [|f] eqn:E; [lia|]. done.
Qed.

Lemma remove_all_loop_absent m p : m_ents m !! p = None → remove_all_loop (2 * size (m_ents m) + 2) m [p] = Done (m, inl tt).
Proof.
  intros Hn. replace (2 * size (m_ents m) + 2) with (S (S (2 * size (m_ents m)))) by lia. by rewrite step_absent.
Qed.

(* remove_all on the root itself: everything below it goes, and the call then fails on the root's missing parent *)
Lemma remove_all_loop_root m : WF m →
  ∃ m', remove_all_loop (2 * size (m_ents m) + 2) m [[]] = Done (m', inr EParentNotFound) ∧ WF m'.
Proof.
  intros HW. destruct (wf_root m HW) as (r & Hr & _). destruct (bounded_any m []) as [h Hb].
  assert (Hb' : bounded m [] (S h)) by (intros q Hq Hs; specialize (Hb q Hq Hs); lia).
  destruct (kids_of r) as [|c0 cs0] eqn:Ek.
  - exists m. split; [|done]. replace (2 * size (m_ents m) + 2) with (S (S (2 * size (m_ents m)))) by lia.
    cbn [remove_all_loop]. rewrite Hr. fold (kids_of r). by rewrite Ek.
  - destruct (kids_loop h (dfs h) [] (c0 :: cs0) m r [[]] HW Hr ltac:(rewrite <- Ek; apply kids_of_nodup)) as (t1 & m2 & e2 & Hf1 & Hs1 & HW2 & He2 & Hfs2 & _).
    { intros c Hc. apply (proj1 (kids_spec r c)). by rewrite Ek. }
    { exact Hb'. }
    assert (Hleaf2 : files_of e2 = ∅).
    { rewrite Hfs2. apply leibniz_equiv. intros c. split; [|set_solver]. intros Hc. apply elem_of_difference in Hc as [Hd1 Hd2]. exfalso. apply Hd2.
      apply elem_of_list_to_set. rewrite <- Ek. by apply (proj2 (kids_spec r c)). }
    exists m2. split; [|done]. replace (2 * size (m_ents m) + 2) with (S (2 * size (m_ents m) + 1)) by lia.
    rewrite (step_expand _ m [] [] r c0 cs0 Hr Ek). set (n := size (m_ents m)) in *. set (n' := size (m_ents m2)) in *.
    rewrite (Hf1 (2 * n + 1) ltac:(lia)).
    destruct (2 * n + 1 - t1) as [|f] eqn:E; [lia|].
    cbn [remove_all_loop]. rewrite He2. fold (kids_of e2). by rewrite (files_nil_kids e2 Hleaf2).
Qed.

(* Memfs::remove_all, whole call: it always finishes within its fuel, and on a path other than the root it succeeds with
   exactly the subtree gone *)
Theorem remove_all_op_terminates env m s : WF m → remove_all_op env m s ≠ OutOfFuel.
Proof.
  intros HW. unfold remove_all_op. destruct (resolve env m s) as [p|err]; [|done].
  destruct (decide (p = [])) as [->|Hp].
  - destruct (remove_all_loop_root m HW) as (m' & -> & _). done.
  - destruct (m_ents m !! p) as [e|] eqn:He.
    + destruct (remove_all_loop_present m p HW Hp ltac:(eauto)) as (m' & -> & _). done.
    + by rewrite remove_all_loop_absent.
Qed.

Theorem remove_all_op_spec env m s p : WF m → resolve env m s = inl p → p ≠ [] →
  ∃ m', remove_all_op env m s = Done (m', inl tt) ∧ WF m' ∧
        (m_ents m !! p = None → m' = m) ∧ (is_Some (m_ents m !! p) → removed m p m').
Proof.
  intros HW Hres Hp. unfold remove_all_op. rewrite Hres. destruct (m_ents m !! p) as [e|] eqn:He.
  - destruct (remove_all_loop_present m p HW Hp ltac:(eauto)) as (m' & -> & Hr & HW'). exists m'. split; [done|]. split; [done|].
    split; [done|]. done.
  - exists m. rewrite remove_all_loop_absent by done. split; [done|]. split; [done|]. split; [done|]. intros [? ?]; done.
Qed.

(* what `removed` says, clause by clause *)
Lemma removed_gone m k m' q : removed m k m' → k `suffix_of` q → m_ents m' !! q = None ∧ m_data m' !! q = None.
Proof. intros (He & Hd & _) Hq. rewrite He, Hd. unfold rm_e, rm_d. destruct (decide (k `suffix_of` q)); done. Qed.

Lemma removed_frame m k m' q : removed m k m' → ¬ k `suffix_of` q → q ≠ tail k →
  m_ents m' !! q = m_ents m !! q ∧ m_data m' !! q = m_data m !! q.
Proof. intros (He & Hd & _) Hq Hne. rewrite He, Hd. unfold rm_e, rm_d. destruct (decide (k `suffix_of` q)); [done|]. destruct (decide (q = tail k)); done. Qed.

Lemma removed_parent m b d m' : removed m (b :: d) m' →
  m_ents m' !! d = (λ pe, entry_remove pe b) <$> (m_ents m !! d) ∧ m_data m' !! d = m_data m !! d.
Proof.
  intros (He & Hd & _). rewrite He, Hd. unfold rm_e, rm_d. cbn [tail hd].
  destruct (decide (b :: d `suffix_of` d)) as [H|_]; [apply suffix_length in H; cbn in H; lia|].
  destruct (decide (d = d)); done.
Qed.

Lemma removed_cwd_root m k m' : removed m k m' → m_cwd m' = m_cwd m ∧ m_root m' = m_root m.
Proof. by intros (_ & _ & ? & ?). Qed.

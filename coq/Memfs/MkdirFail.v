(* Memfs/MkdirFail.v — a failing mkdir_p / mkdir_m leaves the state exactly as it was (C01): the prefixes are visited shortest
   first, a failure can only come from a prefix that exists and is not a real directory, and then every shorter prefix
   existed too, so nothing was created before the failure; once a prefix had to be created, every longer one is absent and
   is created as well. *)
From stdpp Require Import gmap.
From Coq Require Import NArith.
From RV Require Import Base.Str Path.Helpers Path.Expand Memfs.State Memfs.Ops Memfs.Wf Memfs.WfMove Memfs.CopyDir.

(* below a path that does not exist nothing exists *)
Lemma absent_below m p q : WF m → m_ents m !! p = None → p `suffix_of` q → m_ents m !! q = None.
Proof.
  intros HW Hp [j ->]. destruct (m_ents m !! (j ++ p)) as [x|] eqn:Hx; [|done]. exfalso.
  destruct (wf_reachable m HW _ _ Hx (length j)) as [y Hy]; [rewrite app_length; lia|].
  rewrite (drop_app_alt j p (length j) eq_refl) in Hy. congruence.
Qed.

(* adding a directory under an existing real directory, at a free path *)
Lemma add_new_dir_exact m n acc mode x : WF m → m_ents m !! (n :: acc) = None → m_ents m !! acc = Some x → e_dir x = true → e_link x = false →
  ∃ m1, add m (new_dir (n :: acc) mode) = (m1, inl (n :: acc)) ∧ m_ents m1 !! (n :: acc) = Some (new_dir (n :: acc) mode) ∧
        (∀ q, q ≠ n :: acc → q ≠ acc → m_ents m1 !! q = m_ents m !! q).
Proof.
  intros HW Hp Hx Hd Hl. unfold add. change (e_path (new_dir (n :: acc) mode)) with (n :: acc). cbv beta iota zeta.
  rewrite Hx, Hd, Hl. cbn [negb orb]. rewrite Hp.
  change (e_link (new_dir (n :: acc) mode)) with false. change (e_file (new_dir (n :: acc) mode)) with false. cbn [negb andb].
  assert (Hne : acc ≠ n :: acc) by (intros E; apply (f_equal length) in E; cbn in E; lia).
  cbn [upd_ents m_ents]. rewrite lookup_insert_ne by done. rewrite Hx.
  assert (Hfresh : n ∉ files_of x).
  { intros Hin. destruct (wf_chl m HW _ _ _ Hx Hin) as [y Hy]. congruence. }
  assert (Hea : entry_add x n = ((entry_add x n).1, true)).
  { unfold entry_add, files_of in *. destruct (e_files x) as [fs|]; cbn in *; [|done]. f_equal. by rewrite bool_decide_false. }
  rewrite Hea. eexists. split; [done|]. cbn [upd_ents m_ents]. split.
  - rewrite lookup_insert_ne by done. by rewrite lookup_insert.
  - intros q H1 H2. by rewrite !lookup_insert_ne.
Qed.

(* after a fresh directory was added, the rest of the chain is created without failure *)
Lemma mkdir_loop_fresh ns : ∀ m acc mode x, WF m → m_ents m !! acc = Some x → real_dir x →
  (∀ q, acc `suffix_of` q → q ≠ acc → m_ents m !! q = None) →
  ∃ m', mkdir_loop m (prefixes ns acc) mode = (m', inl tt).
Proof.
  induction ns as [|n ns IH]; intros m acc mode x HW Hx Hrd Hfree; cbn [prefixes mkdir_loop]; [eauto|].
  assert (Hp : m_ents m !! (n :: acc) = None) by (apply Hfree; [by apply suffix_cons_r|intros E; apply (f_equal length) in E; cbn in E; lia]).
  destruct Hrd as [Hd Hl].
  pose proof (add_wf m (new_dir (n :: acc) mode) HW (fresh_new_dir _ _)) as HW1.
  destruct (add_new_dir_exact m n acc mode x HW Hp Hx Hd Hl) as (m1 & Ha & Hl1 & Hother).
  rewrite Ha in *. cbn [fst] in HW1.
  apply (IH m1 (n :: acc) mode (new_dir (n :: acc) mode) HW1 Hl1 ltac:(done)).
  intros q Hq Hne. rewrite Hother; [apply Hfree; [by eapply suffix_cons_l|]|done|].
  - intros ->. apply suffix_length in Hq. cbn in Hq. lia.
  - intros ->. apply suffix_length in Hq. cbn in Hq. lia.
Qed.

Lemma mkdir_loop_fail ns : ∀ m acc mode x m' e, WF m → m_ents m !! acc = Some x → real_dir x →
  mkdir_loop m (prefixes ns acc) mode = (m', inr e) → m' = m.
Proof.
  induction ns as [|n ns IH]; intros m acc mode x m' e HW Hx Hrd; cbn [prefixes mkdir_loop]; [done|].
  destruct (m_ents m !! (n :: acc)) as [y|] eqn:Hy.
  - (* the prefix exists: the add changes nothing whatever it answers *)
    assert (Hadd : (add m (new_dir (n :: acc) mode)).1 = m).
    { unfold add. change (e_path (new_dir (n :: acc) mode)) with (n :: acc). cbv beta iota zeta. rewrite Hx.
      destruct (negb (e_dir x) || e_link x); [done|]. rewrite Hy. repeat case_match; done. }
    destruct (add m (new_dir (n :: acc) mode)) as [m1 [p|e1]] eqn:Ea; cbn [fst] in Hadd; subst m1; [|intros H; by simplify_eq].
    (* it answered Ok, so it is a real directory *)
    assert (Hyr : real_dir y).
    { unfold add in Ea. change (e_path (new_dir (n :: acc) mode)) with (n :: acc) in Ea. cbv beta iota zeta in Ea. rewrite Hx in Ea.
      destruct Hrd as [Hd Hl]. rewrite Hd, Hl in Ea. cbn [negb orb] in Ea. rewrite Hy in Ea.
      change (e_file (new_dir (n :: acc) mode)) with false in Ea. change (e_link (new_dir (n :: acc) mode)) with false in Ea.
      change (e_dir (new_dir (n :: acc) mode)) with true in Ea. cbn [andb negb] in Ea.
      destruct (e_dir y) eqn:Eyd, (e_link y) eqn:Eyl; cbn in Ea; try discriminate. done. }
    by apply (IH m (n :: acc) mode y m' e HW Hy Hyr).
  - (* the prefix is created; nothing can fail afterwards *)
    destruct Hrd as [Hd Hl].
    pose proof (add_wf m (new_dir (n :: acc) mode) HW (fresh_new_dir _ _)) as HW1.
    destruct (add_new_dir_exact m n acc mode x HW Hy Hx Hd Hl) as (m1 & Ha & Hl1 & Hother).
    rewrite Ha in *. cbn [fst] in HW1.
    destruct (mkdir_loop_fresh ns m1 (n :: acc) mode (new_dir (n :: acc) mode) HW1 Hl1 ltac:(done)) as [m2 Hm2]; [|rewrite Hm2; discriminate].
    intros q Hq Hne. rewrite Hother.
    + apply (absent_below m (n :: acc) q HW Hy Hq).
    + done.
    + intros ->. apply suffix_length in Hq. cbn in Hq. lia.
Qed.

Theorem mkdir_failure_unchanged m p mode m' e : WF m → mkdir_m_abs m p mode = (m', inr e) → m' = m.
Proof.
  intros HW. unfold mkdir_m_abs. assert (Hroot : add m (new_dir [] mode) = (m, inl [])) by done. rewrite Hroot.
  destruct (wf_root m HW) as (r & Hr & Hrr). by apply (mkdir_loop_fail (rev p) m [] mode r m' e HW Hr Hrr).
Qed.

(* ---- every single-target call that reports failure leaves the state exactly as it was ---- *)
From RV Require Import Base.PathLex Memfs.Step Memfs.MoveFacts Memfs.Walk Memfs.WalkOps Memfs.WfMore.

Lemma add_failure_unchanged m e m' err : WF m → add m e = (m', inr err) → m' = m.
Proof.
  intros HW. unfold add. destruct (e_path e) as [|b d]; [destruct (e_file e); intros Hq; by simplify_eq|].
  destruct (m_ents m !! d) as [pe|] eqn:Hpe; [|intros Hq; by simplify_eq].
  destruct (negb (e_dir pe) || e_link pe); [intros Hq; by simplify_eq|].
  destruct (m_ents m !! (b :: d)) as [x|] eqn:Hx; [repeat case_match; intros Hq; by simplify_eq|].
  set (m1 := if negb (e_link e) && e_file e then _ else m).
  assert (Hm1e : m_ents m1 = m_ents m) by (unfold m1; by destruct (_ && _)).
  cbn [upd_ents m_ents]. rewrite lookup_insert_ne by (intros E; apply (f_equal length) in E; cbn in E; lia). rewrite Hm1e, Hpe.
  assert (Hfresh : b ∉ files_of pe).
  { intros Hin. destruct (wf_chl m HW _ _ _ Hpe Hin) as [y Hy]. congruence. }
  assert (Hea : entry_add pe b = ((entry_add pe b).1, true)).
  { unfold entry_add, files_of in *. destruct (e_files pe) as [fs|]; cbn in *; [|done]. f_equal. by rewrite bool_decide_false. }
  rewrite Hea. discriminate.
Qed.

Definition single_target (o : op) : bool :=
  match o with
  | OMkfile _ | OMkdirP _ | OMkdirM _ _ | OWriteAll _ _ | OAppendAll _ _ | ORemove _ | OSymlink _ _ | OSetCwd _ | OMoveP _ _ => true
  | _ => false
  end.

Theorem failed_call_unchanged env m o m' e : WF m → single_target o = true → step env m o = Done (m', inr e) → m' = m.
Proof.
  intros HW Hst. destruct o; try discriminate; cbn [step]; intros Hs.
  - (* set_cwd *) injection Hs as Hs. unfold set_cwd_op in Hs. repeat case_match; cbn in Hs; by simplify_eq.
  - (* mkfile *) injection Hs as Hs. destruct (resolve env m s); [|by simplify_eq].
    destruct (add m (new_file l)) as [m1 [q|e1]] eqn:Ea; cbn in Hs; [discriminate|]. simplify_eq. by eapply add_failure_unchanged.
  - (* mkdir_p *) injection Hs as Hs. destruct (resolve env m s); [|by simplify_eq].
    destruct (mkdir_m_abs m l None) as [m1 [u|e1]] eqn:Ea; [discriminate|]. simplify_eq. by eapply mkdir_failure_unchanged.
  - (* mkdir_m *) injection Hs as Hs. destruct (resolve env m s); [|by simplify_eq].
    destruct (mkdir_m_abs m l (Some mode)) as [m1 [u|e1]] eqn:Ea; [discriminate|]. simplify_eq. by eapply mkdir_failure_unchanged.
  - (* write_all *) injection Hs as Hs. unfold write_all_op in Hs. destruct (resolve env m s); [|cbn in Hs; by simplify_eq].
    destruct (add m (new_file l)) as [m1 [q|e1]] eqn:Ea; [destruct (m_data m1 !! l); cbn in Hs; discriminate|].
    cbn in Hs. simplify_eq. by eapply add_failure_unchanged.
  - (* append_all *) injection Hs as Hs. unfold append_all_op in Hs. destruct (resolve env m s); [|cbn in Hs; by simplify_eq].
    destruct (add m (new_file l)) as [m1 [q|e1]] eqn:Ea.
    { destruct (WfMore.add_file_data m (new_file l) m1 q HW Ea eq_refl eq_refl eq_refl) as [d0 Hd0]. cbn [e_path new_file] in Hd0.
      rewrite Hd0 in Hs. cbn in Hs. discriminate. }
    cbn in Hs. simplify_eq. by eapply add_failure_unchanged.
  - (* remove *) injection Hs as Hs. unfold remove_op in Hs. repeat case_match; cbn in Hs; by simplify_eq.
  - (* symlink *) injection Hs as Hs. unfold symlink_op in Hs.
    destruct (resolve env m l) as [lp|?]; [|cbn in Hs; by simplify_eq].
    destruct (if is_absolute t then _ else _) as [t'|?]; [|cbn in Hs; by simplify_eq].
    destruct (resolve env m t') as [tp|?]; [|cbn in Hs; by simplify_eq].
    case_bool_decide; [cbn in Hs; by simplify_eq|]. destruct lp as [|b d]; [cbn in Hs; by simplify_eq|].
    destruct (add m _) as [m1 [q|e1]] eqn:Ea; cbn in Hs; [discriminate|]. simplify_eq. by eapply add_failure_unchanged.
  - (* move_p *) destruct (move_op env m s d) as [[m1 [u|e1]]| |] eqn:Em; try discriminate. cbn in Hs. simplify_eq.
    destruct (move_validate env m s d) as [e0| |sp dt] eqn:Ev.
    + unfold move_op in Em. rewrite Ev in Em. by simplify_eq.
    + unfold move_op in Em. rewrite Ev in Em. by simplify_eq.
    + exfalso. destruct (move_go_facts env m s d _ _ Ev) as (_ & _ & Hu & b & ddir & x0 & -> & _).
      destruct sp as [|sb sd].
      { assert (is_under (b :: ddir) [] = true) as Ht by (apply is_under_spec, suffix_nil). congruence. }
      destruct (move_op_spec env m s d sb sd b ddir m' (inr e) HW Ev Em) as (_ & _ & _ & _ & _ & _ & _ & Hr & _). discriminate.
Qed.

(* Memfs/RefineCopy.v — copy in the reference tree filesystem (C01, C09), for the calls the exact copy theorems cover: a
   source without links (a regular file, or a directory tree of directories and regular files), not followed, copied to a
   path that does not exist yet and whose parent is an existing real directory - given directly, or as an existing directory
   that receives the source under its own name.  The reference adds, for every node at j below the source, a node at j below
   the destination: a directory with the requested (else the source directory's) mode and default owner, a regular file with
   the source's bytes and owner and the requested (else its own) mode; nothing else changes. *)
From stdpp Require Import gmap.
From Coq Require Import NArith.
From RV Require Import Base.Str Path.Helpers Path.Expand Memfs.State Memfs.Ops Memfs.Walk Memfs.WalkOps Memfs.Wf Memfs.WfMove Memfs.Spec Memfs.Refine
  Memfs.CopyFile Memfs.CopyDir Memfs.CopyInto Memfs.Names Gen.Consts.

Local Arguments rebase : simpl never.

Definition cp_dm (o : copy_opts) : option N := match cp_mode o with Some x => if cp_cdirs o || negb (cp_cfiles o) then Some x else None | None => None end.
Definition cp_fm (o : copy_opts) : option N := match cp_mode o with Some x => if cp_cfiles o || negb (cp_cdirs o) then Some x else None | None => None end.

(* the copy of one node *)
Definition node_copy (o : copy_opts) (n : node) : node :=
  match n_kind n with
  | KDir => let e := new_dir [] (orelse (cp_dm o) (Some (n_mode n))) in
            mkNode KDir (e_mode e) (e_uid e) (e_gid e) [] None [] false
  | _ => mkNode (n_kind n) (opts_mode false true false (Some (match cp_fm o with Some md => md | None => n_mode n end)))
                (n_uid n) (n_gid n) (n_data n) (n_target n) (n_rel n) (n_tdir n)
  end.

Definition copy_pairs (t : tree) (o : copy_opts) (sp dp : rpath) : list (rpath * node) :=
  omap (λ qn, if decide (sp `suffix_of` qn.1) then Some (rebase sp dp qn.1, node_copy o qn.2) else None) (map_to_list (t_nodes t)).

Definition spec_copy_tree (t : tree) (o : copy_opts) (sp dp : rpath) : tree :=
  mkTree (t_cwd t) (list_to_map (copy_pairs t o sp dp) ∪ t_nodes t).

Lemma copy_pairs_elem t o sp dp k v : (k, v) ∈ copy_pairs t o sp dp ↔ ∃ j n, t_nodes t !! (j ++ sp) = Some n ∧ k = j ++ dp ∧ v = node_copy o n.
Proof.
  unfold copy_pairs. rewrite elem_of_list_omap. split.
  - intros ([q n] & Hin & Hf). cbn in Hf. destruct (decide (sp `suffix_of` q)) as [[j ->]|]; [|done]. simplify_eq.
    apply elem_of_map_to_list in Hin. exists j, n. split; [done|]. split; [exact (rebase_app sp dp j)|done].
  - intros (j & n & Hn & -> & ->). exists (j ++ sp, n). split; [by apply elem_of_map_to_list|]. cbn [fst snd].
    rewrite decide_True by (by exists j). by rewrite rebase_app.
Qed.

Lemma copy_pairs_nodup t o sp dp : NoDup (copy_pairs t o sp dp).*1.
Proof.
  unfold copy_pairs. pose proof (NoDup_fst_map_to_list (t_nodes t)) as Hnd. induction (map_to_list (t_nodes t)) as [|[q n] l IH]; [constructor|].
  cbn [fmap list_fmap] in Hnd. apply NoDup_cons in Hnd as [Hq Hnd]. cbn [omap list_omap]. cbn [fst snd].
  destruct (decide (sp `suffix_of` q)) as [[j ->]|]; [|by apply IH].
  cbn [fmap list_fmap fst]. apply NoDup_cons. split; [|by apply IH].
  intros Hin. apply elem_of_list_fmap in Hin as ([k v] & Hk & Hin). cbn in Hk. apply elem_of_list_omap in Hin as ([q' n'] & Hin' & Hf).
  cbn in Hf. destruct (decide (sp `suffix_of` q')) as [[j' ->]|]; [|done]. injection Hf as <- <-. rewrite !rebase_app in Hk. apply app_inv_tail in Hk as <-.
  apply Hq. apply elem_of_list_fmap. by exists (j ++ sp, n').
Qed.

Lemma spec_copy_lookup t o sp dp k : (∀ k, dp `suffix_of` k → t_nodes t !! k = None) →
  t_nodes (spec_copy_tree t o sp dp) !! k =
    if decide (dp `suffix_of` k) then node_copy o <$> t_nodes t !! (rebase dp sp k) else t_nodes t !! k.
Proof.
  intros Hfree. cbn [spec_copy_tree t_nodes]. rewrite lookup_union.
  destruct (decide (dp `suffix_of` k)) as [[j ->]|Hno].
  - rewrite (Hfree (j ++ dp)) by (by exists j). rewrite rebase_app.
    destruct (t_nodes t !! (j ++ sp)) as [n|] eqn:Hn; cbn.
    + rewrite (elem_of_list_to_map_1 _ (j ++ dp) (node_copy o n)); [done|apply copy_pairs_nodup|]. apply copy_pairs_elem. by exists j, n.
    + rewrite (not_elem_of_list_to_map_1 _ (j ++ dp)); [done|]. intros Hin. apply elem_of_list_fmap in Hin as ([k v] & Hk & Hin). cbn in Hk. subst k.
      apply copy_pairs_elem in Hin as (j' & n & Hn' & Hk & _). apply app_inv_tail in Hk as ->. congruence.
  - rewrite (not_elem_of_list_to_map_1 _ k); [by destruct (t_nodes t !! k)|]. intros Hin. apply elem_of_list_fmap in Hin as ([k' v] & Hk & Hin). cbn in Hk. subst k'.
    apply copy_pairs_elem in Hin as (j' & n & _ & -> & _). apply Hno. by exists j'.
Qed.

(* ---- the copied node is the reference's copy ---- *)
Lemma cnode_node_copy m o sp dp x : kind_ok x → e_link x = false → cnode m o sp dp x = node_copy o (node_of x (m_data m !! e_path x)).
Proof.
  intros Hk Hl. unfold kind_ok in Hk. unfold cnode, node_copy, node_of, kind_of_entry. cbn [n_kind n_mode n_uid n_gid n_data n_target n_rel n_tdir].
  rewrite Hl. destruct (e_dir x) eqn:Hd.
  - cbn. done.
  - assert (Hf : e_file x = true) by (symmetry in Hk; by apply negb_false_iff in Hk).
    unfold file_copy_entry, cp_fm. destruct (match cp_mode o with Some x0 => _ | None => None end) as [md|]; cbn; rewrite Hl, Hd, Hf; cbn; done.
Qed.

Lemma nothing_under m dp k : WF m → m_ents m !! dp = None → dp `suffix_of` k → m_ents m !! k = None.
Proof.
  intros HW Hdp [j ->]. destruct (m_ents m !! (j ++ dp)) as [x|] eqn:Hx; [|done]. exfalso.
  destruct (wf_reachable m HW _ _ Hx (length j)) as [y Hy]; [rewrite app_length; lia|].
  rewrite drop_app_alt in Hy by done. congruence.
Qed.

(* a directory tree without links, to a fresh path whose parent is an existing real directory *)
Theorem copy_dir_refines env m s d o sp dp db ddir r pd :
  WF m → kinds_ok m → keys_ok m → cp_follow o = false → resolve env m s = inl sp → resolve env m d = inl dp →
  m_ents m !! sp = Some r → real_dir r → dp = db :: ddir → m_ents m !! dp = None → m_ents m !! ddir = Some pd → real_dir pd →
  ¬ sp `suffix_of` dp → (∀ q x, sp `suffix_of` q → m_ents m !! q = Some x → e_link x = false) →
  ∃ m', copy_op env m s d o = Done (m', inl tt) ∧ abs m' = spec_copy_tree (abs m) o sp dp.
Proof.
  intros HW HK Hkeys Hnf Hs Hd Hr Hrr Hdp Hdpn Hpd Hpdr Hnotin Hnolink.
  destruct (copy_dir_fresh env m s d o sp dp db ddir r pd HW HK Hnf Hs Hd Hr Hrr Hdp Hdpn Hpd Hpdr Hnotin) as (m' & Hop & _ & _ & Hc & Hin & Hout & Hrest).
  { intros q _ Hq. by apply Hkeys. } { done. }
  exists m'. split; [done|]. apply tree_eq; [done|]. intros k.
  rewrite spec_copy_lookup by (intros k' Hk'; rewrite lookup_abs, (nothing_under m dp k' HW Hdpn Hk'); done).
  change (t_nodes (abs m')) with (abs_nodes m').
  destruct (decide (dp `suffix_of` k)) as [[j ->]|Hno]; [|rewrite (Hrest k Hno); done].
  rewrite rebase_app, lookup_abs. destruct (m_ents m !! (j ++ sp)) as [x|] eqn:Hx; cbn.
  - rewrite (Hin j x Hx). f_equal. rewrite (cnode_node_copy m o sp dp x); [by rewrite (wf_key m HW _ _ Hx)|by eapply HK|].
    apply (Hnolink (j ++ sp) x); [by exists j|done].
  - by apply Hout.
Qed.

(* ... into an existing real directory, which receives the source under the source's own name *)
Theorem copy_into_refines env m s d o sp dp b sd r pd :
  WF m → kinds_ok m → keys_ok m → cp_follow o = false → resolve env m s = inl sp → resolve env m d = inl dp →
  sp = b :: sd → m_ents m !! sp = Some r → real_dir r → m_ents m !! dp = Some pd → real_dir pd → m_ents m !! (b :: dp) = None →
  ¬ sp `suffix_of` (b :: dp) → (∀ q x, sp `suffix_of` q → m_ents m !! q = Some x → e_link x = false) →
  ∃ m', copy_op env m s d o = Done (m', inl tt) ∧ abs m' = spec_copy_tree (abs m) o sp (b :: dp).
Proof.
  intros HW HK Hkeys Hnf Hs Hd Hsp Hr Hrr Hpd Hpdr Hfree Hnotin Hnolink.
  destruct (copy_dir_into env m s d o sp dp b sd r pd HW HK Hkeys Hnf Hs Hd Hsp Hr Hrr Hpd Hpdr Hfree Hnotin Hnolink) as (m' & Hop & _ & _ & Hc & Hin & Hout & Hrest).
  exists m'. split; [done|]. apply tree_eq; [done|]. intros k.
  rewrite spec_copy_lookup by (intros k' Hk'; rewrite lookup_abs, (nothing_under m (b :: dp) k' HW Hfree Hk'); done).
  change (t_nodes (abs m')) with (abs_nodes m').
  destruct (decide ((b :: dp) `suffix_of` k)) as [[j ->]|Hno]; [|rewrite (Hrest k Hno); done].
  rewrite rebase_app, lookup_abs. destruct (m_ents m !! (j ++ sp)) as [x|] eqn:Hx; cbn.
  - rewrite (Hin j x Hx). f_equal. rewrite (cnode_node_copy m o sp (b :: dp) x); [by rewrite (wf_key m HW _ _ Hx)|by eapply HK|].
    apply (Hnolink (j ++ sp) x); [by exists j|done].
  - by apply Hout.
Qed.

(* a regular file to a fresh path whose parent is an existing real directory *)
Lemma node_of_files_irrelevant e fs d : node_of (set_files e fs) d = node_of e d.
Proof. reflexivity. Qed.

Lemma node_of_entry_add pd db d : node_of (entry_add pd db).1 d = node_of pd d.
Proof. unfold entry_add. by destruct (e_files pd). Qed.

Theorem copy_file_refines env m s d o sp dp db ddir r pd :
  WF m → kinds_ok m → resolve env m s = inl sp → resolve env m d = inl dp → sp ≠ dp →
  m_ents m !! sp = Some r → e_dir r = false → e_link r = false →
  dp = db :: ddir → m_ents m !! dp = None → m_ents m !! ddir = Some pd → real_dir pd →
  ∃ m', copy_op env m s d o = Done (m', inl tt) ∧ abs m' = spec_copy_tree (abs m) o sp dp.
Proof.
  intros HW HK Hs Hd Hne Hr Hdir Hl Hdp Hdpn Hpd Hpdr.
  assert (Hf : e_file r = true) by (pose proof (HK _ _ Hr) as Hk; unfold kind_ok in Hk; rewrite Hdir in Hk; symmetry in Hk; by apply negb_false_iff in Hk).
  assert (Hdat : ∃ bytes, m_data m !! sp = Some bytes).
  { destruct (proj2 (wf_dat m HW sp)) as [b Hb]; [by exists r|by exists b]. }
  destruct Hdat as [bytes Hdat].
  destruct (copy_file_fresh env m s d o sp dp db ddir r pd bytes HW Hs Hd Hne Hr Hf Hdir Hl Hdat Hdp Hdpn Hpd Hpdr)
    as (m' & Hop & He & Hda & Hpar & Heo & Hdo & Hc & _).
  exists m'. split; [done|]. apply tree_eq; [done|]. intros k.
  rewrite spec_copy_lookup by (intros k' Hk'; rewrite lookup_abs, (nothing_under m dp k' HW Hdpn Hk'); done).
  rewrite !lookup_abs.
  (* nothing lies below a regular file *)
  assert (Hleaf : ∀ j, j ≠ [] → m_ents m !! (j ++ sp) = None).
  { intros j Hj. destruct (m_ents m !! (j ++ sp)) as [x|] eqn:Hx; [|done]. exfalso.
    destruct (exists_last Hj) as (j0 & n & ->). rewrite <- app_assoc in Hx. cbn [app] in Hx.
    destruct (wf_reachable m HW _ _ Hx (length j0)) as [y Hy]; [rewrite app_length; lia|].
    rewrite drop_app_alt in Hy by done.
    destruct (wf_par m HW _ _ _ Hy) as (pe & Hpe & [Hpd' _] & _). rewrite Hr in Hpe. simplify_eq. congruence. }
  destruct (decide (dp `suffix_of` k)) as [[j ->]|Hno].
  - rewrite rebase_app. destruct (decide (j = [])) as [->|Hj]; cbn [app].
    + rewrite He, Hda, Hr, Hdat. cbn. f_equal.
      unfold copied_entry, node_copy, node_of, kind_of_entry, cp_fm. cbn [n_kind n_mode n_uid n_gid n_data n_target n_rel n_tdir].
      rewrite Hl, Hdir. destruct (match cp_mode o with Some x0 => _ | None => None end) as [md|]; cbn; rewrite Hl, Hdir, Hf; cbn; done.
    + rewrite (Hleaf j Hj). cbn.
      assert (Hq : j ++ dp ≠ dp) by (intros E; apply Hj; apply (app_inv_tail dp); by rewrite E).
      destruct (decide (j ++ dp = ddir)) as [E|Hq2].
      { exfalso. subst dp. assert (length (j ++ db :: ddir) = length ddir) by (by rewrite E). rewrite app_length in H. cbn in H. lia. }
      rewrite (Heo _ Hq Hq2), (nothing_under m dp (j ++ dp) HW Hdpn) by (by exists j). done.
  - assert (Hq : k ≠ dp) by (intros ->; by apply Hno).
    rewrite (Hdo k Hq). destruct (decide (k = ddir)) as [->|Hq2]; [|by rewrite (Heo k Hq Hq2)].
    rewrite Hpar, Hpd. cbn. by rewrite node_of_entry_add.
Qed.

(* Base/PathLex.v — model of std::path on Unix (modelled, not verified; DESIGN §4.1, App. B).
   Path::components, PathBuf::push/join, parent/pop, file_name, extension, is_absolute,
   component-wise equality, Components::as_path after dropping front/back components.
   Validated against real std by the `pathlex` correspondence stream. *)
From Coq Require Import List NArith Bool Lia Arith.
Import ListNotations.
From RV Require Import Base.Str.

Inductive comp := CRoot | CCur | CParent | CNormal (s : str).

Definition comp_eqb (a b : comp) : bool :=
  match a, b with
  | CRoot, CRoot | CCur, CCur | CParent, CParent => true
  | CNormal x, CNormal y => str_eqb x y
  | _, _ => false
  end.

Lemma comp_eqb_eq a b : comp_eqb a b = true <-> a = b.
Proof.
  destruct a, b; simpl; split; try congruence; try discriminate.
  - intros H. apply str_eqb_eq in H. congruence.
  - intros H. injection H as ->. apply str_eqb_refl.
Qed.

Definition split (s : str) : list str := split_on slash s.

Definition is_rooted (s : str) : bool := match s with c :: _ => N.eqb c slash | [] => false end.

(* one raw segment -> zero or one component *)
Definition seg_comp (first_unrooted : bool) (g : str) : list comp :=
  match g with
  | [] => []
  | [d] => if N.eqb d dot then (if first_unrooted then [CCur] else []) else [CNormal g]
  | [d1; d2] => if N.eqb d1 dot && N.eqb d2 dot then [CParent] else [CNormal g]
  | _ => [CNormal g]
  end.

(* Path::components().collect() *)
Definition components (s : str) : list comp :=
  let r := is_rooted s in
  match split s with
  | [] => []
  | g :: gs => (if r then [CRoot] else []) ++ seg_comp (negb r) g ++ flat_map (seg_comp false) gs
  end.

Definition comp_str (c : comp) : str :=
  match c with CRoot => [slash] | CCur => [dot] | CParent => [dot; dot] | CNormal s => s end.

(* PathBuf::push (Unix): an absolute argument replaces; a separator is inserted unless the buffer
   is empty or already ends with one *)
Definition push (buf p : str) : str :=
  if is_rooted p then p
  else match buf with
       | [] => p
       | _ => match last_char buf with
              | Some c => if N.eqb c slash then buf ++ p else buf ++ [slash] ++ p
              | None => p
              end
       end.
Definition join (a b : str) : str := push a b.

(* comps.collect::<PathBuf>() = successive pushes from the empty buffer *)
Definition render (cs : list comp) : str := fold_left (fun b c => push b (comp_str c)) cs [].

Definition is_absolute (s : str) : bool := is_rooted s.

(* component-wise equality of paths (Path == Path) *)
Fixpoint comps_eqb (a b : list comp) : bool :=
  match a, b with
  | [], [] => true
  | x :: a', y :: b' => comp_eqb x y && comps_eqb a' b'
  | _, _ => false
  end.
Definition path_eqb (a b : str) : bool := comps_eqb (components a) (components b).

Lemma comps_eqb_eq a b : comps_eqb a b = true <-> a = b.
Proof.
  revert b; induction a as [|x a IH]; destruct b as [|y b]; simpl; split; try congruence; try discriminate.
  - intros H. apply andb_true_iff in H as [H1 H2]. apply comp_eqb_eq in H1. apply IH in H2. congruence.
  - intros H. injection H as -> ->. apply andb_true_iff. split; [apply comp_eqb_eq | apply IH]; reflexivity.
Qed.

(* Path::starts_with — component prefix *)
Fixpoint comps_prefixb (p a : list comp) : bool :=
  match p, a with
  | [], _ => true
  | x :: p', y :: a' => comp_eqb x y && comps_prefixb p' a'
  | _ :: _, [] => false
  end.
Definition path_starts_with (a p : str) : bool := comps_prefixb (components p) (components a).

(* ---- spans: each component with its [start, end) offsets in the string, for the operations that
   return sub-slices of the original string (parent, Components::as_path) ---- *)
Fixpoint seg_spans (gs : list str) (pos : nat) (first_unrooted : bool) : list (comp * (nat * nat)) :=
  match gs with
  | [] => []
  | g :: gs' =>
      (match seg_comp first_unrooted g with
       | c :: _ => [(c, (pos, pos + length g))]
       | [] => []
       end) ++ seg_spans gs' (pos + length g + 1) false
  end.

Definition spans (s : str) : list (comp * (nat * nat)) :=
  let r := is_rooted s in
  (if r then [(CRoot, (0, 1))] else []) ++ seg_spans (split s) 0 (negb r).

Definition substr (s : str) (a b : nat) : str := firstn (b - a) (skipn a s).

(* Components::as_path() after `front` components were taken from the front and `back` from the
   back: the slice of the original string covering the remaining components *)
Definition as_path_after (s : str) (front back : nat) : str :=
  let sp := spans s in
  let n := length sp in
  if Nat.leb n (front + back) then []
  else
    let rest := firstn (n - front - back) (skipn front sp) in
    match rest, rev rest with
    | (_, (a, _)) :: _, (_, (_, b)) :: _ => substr s (if Nat.eqb front 0 then 0 else a) b
    | _, _ => []
    end.

(* Path::parent *)
Definition parent (s : str) : option str :=
  match rev (spans s) with
  | [] => None
  | (CRoot, _) :: _ => None
  | _ :: _ => Some (as_path_after s 0 1)
  end.

(* PathBuf::pop *)
Definition pop (s : str) : str := match parent s with Some p => p | None => s end.

(* Path::file_name *)
Definition file_name (s : str) : option str :=
  match rev (components s) with
  | CNormal n :: _ => Some n
  | _ => None
  end.

(* split a file name at its last '.', as std's rsplit_file_at_dot: (before, after) *)
Fixpoint rsplit_dot_rev (r : str) (after : str) : option (str * str) :=
  match r with
  | [] => None
  | c :: r' => if N.eqb c dot then Some (rev r', after) else rsplit_dot_rev r' (c :: after)
  end.

(* Path::extension *)
Definition extension (s : str) : option str :=
  match file_name s with
  | None => None
  | Some f =>
      match rsplit_dot_rev (rev f) [] with
      | None => None
      | Some ([], _) => None
      | Some (_, after) => Some after
      end
  end.

(* Base/SpanFacts.v — parent / base / first / trim_first / mash on canonical (clean) paths, in terms
   of their component lists.  These bridge the string-level std::path model and the list-of-names
   view used by abs() and by the Memfs state machine. *)
From Coq Require Import List NArith Bool Lia Arith.
Import ListNotations.
From RV Require Import Base.Str Base.PathLex Base.PathLexFacts.

(* spans of a list of one-component segments starting at offset pos *)
Fixpoint spans_of (cs : list comp) (pos : nat) : list (comp * (nat * nat)) :=
  match cs with
  | [] => []
  | c :: cs' => (c, (pos, pos + length (comp_str c))) :: spans_of cs' (pos + length (comp_str c) + 1)
  end.

Lemma seg_spans_tailc cs pos : Forall tailc_ok cs ->
  seg_spans (map comp_str cs) pos false = spans_of cs pos.
Proof.
  intros H. revert pos. induction H as [|c cs Hc _ IH]; intros pos; [reflexivity|].
  cbn [map seg_spans spans_of]. rewrite seg_comp_tailc by assumption. cbn [app]. rewrite IH. reflexivity.
Qed.

Lemma spans_of_length cs pos : length (spans_of cs pos) = length cs.
Proof. revert pos; induction cs as [|c cs IH]; intros pos; [reflexivity|]. cbn. rewrite IH. reflexivity. Qed.

Lemma spans_of_app cs ds pos :
  spans_of (cs ++ ds) pos = spans_of cs pos ++ spans_of ds (pos + length (join_names (map comp_str cs)) + (if cs then 0 else 1)).
Proof.
  revert pos; induction cs as [|c cs IH]; intros pos.
  - cbn. rewrite !Nat.add_0_r. reflexivity.
  - cbn [app spans_of map]. f_equal. rewrite IH. f_equal. f_equal.
    destruct cs as [|d cs].
    + cbn. lia.
    + rewrite join_names_cons by discriminate. rewrite app_length. cbn [length]. lia.
Qed.

(* spans of a rooted canonical path "/" ++ names *)
Lemma spans_rooted cs : Forall tailc_ok cs ->
  spans (render (CRoot :: cs)) = (CRoot, (0, 1)) :: spans_of cs 1.
Proof.
  intros H. assert (HN : Forall nonroot_ok cs) by (eapply Forall_impl; [|exact H]; apply tailc_nonroot).
  rewrite render_rooted by assumption. unfold spans. cbn [is_rooted]. rewrite N.eqb_refl. cbn [negb app].
  f_equal. destruct cs as [|c cs].
  - reflexivity.
  - rewrite (split_slash_join _ (map_comp_str_noslash _ H) ltac:(discriminate)).
    cbn [seg_spans seg_comp app length]. apply seg_spans_tailc. exact H.
Qed.

(* spans of an unrooted canonical path whose components each occupy one segment *)
Lemma spans_unrooted cs : cs <> [] -> Forall tailc_ok cs ->
  spans (render cs) = spans_of cs 0.
Proof.
  intros Hne H. assert (HN : Forall nonroot_ok cs) by (eapply Forall_impl; [|exact H]; apply tailc_nonroot).
  rewrite render_unrooted by assumption.
  assert (Hm : map comp_str cs <> []) by (destruct cs; [congruence | discriminate]).
  unfold spans. rewrite (split_join _ (map_comp_str_noslash _ H) Hm).
  destruct cs as [|c cs]; [congruence|]. inversion H as [|? ? Hc H']; subst.
  assert (Hr : is_rooted (join_names (map comp_str (c :: cs))) = false).
  { destruct (comp_str_nonroot c (tailc_nonroot c Hc)) as [H1 H2]. cbn [map].
    destruct (comp_str c) as [|ch g] eqn:E; [congruence|]. inversion H2; subst.
    destruct (map comp_str cs); simpl; apply N.eqb_neq; assumption. }
  rewrite Hr. cbn [negb app map seg_spans spans_of].
  assert (Hs : seg_comp true (comp_str c) = [c]) by (apply seg_comp_tailc; assumption).
  rewrite Hs. cbn [app]. f_equal. apply seg_spans_tailc. exact H'.
Qed.

Lemma firstn_join_prefix ns ms : ns <> [] -> ms <> [] ->
  firstn (length (join_names ns)) (join_names (ns ++ ms)) = join_names ns.
Proof.
  intros Hn Hm.
  assert (Hjoin : forall l1 l2, l1 <> [] -> l2 <> [] -> join_names (l1 ++ l2) = join_names l1 ++ slash :: join_names l2).
  { induction l1 as [|a l1 IH]; intros l2 H1 H2; [congruence|]. destruct l1 as [|a' l1].
    - cbn [app]. rewrite join_names_cons by assumption. reflexivity.
    - change ((a :: a' :: l1) ++ l2) with (a :: ((a' :: l1) ++ l2)).
      rewrite join_names_cons by discriminate. rewrite IH by (try discriminate; assumption).
      rewrite (join_names_cons a (a' :: l1)) by discriminate. rewrite <- app_assoc. reflexivity. }
  rewrite Hjoin by assumption. rewrite firstn_app, firstn_all, Nat.sub_diag. cbn. apply app_nil_r.
Qed.

Lemma join_names_app l1 l2 : l1 <> [] -> l2 <> [] -> join_names (l1 ++ l2) = join_names l1 ++ slash :: join_names l2.
Proof.
  revert l2. induction l1 as [|a l1 IH]; intros l2 H1 H2; [congruence|]. destruct l1 as [|a' l1].
  - cbn [app]. rewrite join_names_cons by assumption. reflexivity.
  - change ((a :: a' :: l1) ++ l2) with (a :: ((a' :: l1) ++ l2)).
    rewrite join_names_cons by discriminate. rewrite IH by (try discriminate; assumption).
    rewrite (join_names_cons a (a' :: l1)) by discriminate. rewrite <- app_assoc. reflexivity.
Qed.

Lemma last_spans_of cs c pos :
  rev (spans_of (cs ++ [c]) pos) =
  (c, (pos + length (join_names (map comp_str cs)) + (if cs then 0 else 1),
       pos + length (join_names (map comp_str (cs ++ [c]))))) :: rev (spans_of cs pos).
Proof.
  rewrite spans_of_app. cbn [spans_of]. rewrite rev_app_distr. cbn [rev app]. f_equal. f_equal. f_equal.
  destruct cs as [|d cs].
  - cbn. lia.
  - rewrite map_app. cbn [map]. rewrite join_names_snoc by discriminate. rewrite app_length. cbn [length]. lia.
Qed.

(* ---- absolute clean paths by their names ---- *)
Definition abs_of (ns : list str) : str := render (CRoot :: map CNormal ns).

Lemma abs_of_string ns : Forall is_name ns -> abs_of ns = slash :: join_names ns.
Proof.
  intros H. unfold abs_of. rewrite render_rooted by (apply Forall_map; exact H).
  rewrite map_map. cbn [comp_str]. rewrite map_id. reflexivity.
Qed.

Lemma names_tailc' ns : Forall is_name ns -> Forall tailc_ok (map CNormal ns).
Proof. intros H. apply Forall_map. exact H. Qed.

Definition last_end (sp : list (comp * (nat * nat))) : nat :=
  match rev sp with (_, (_, b)) :: _ => b | [] => 0 end.
Definition first_start (sp : list (comp * (nat * nat))) : nat :=
  match sp with (_, (a, _)) :: _ => a | [] => 0 end.

Lemma as_path_after_back1 s sp1 lst : spans s = sp1 ++ [lst] -> sp1 <> [] ->
  as_path_after s 0 1 = firstn (last_end sp1) s.
Proof.
  intros Hs Hne. unfold as_path_after. rewrite Hs, app_length. cbn [length].
  replace (Nat.leb (length sp1 + 1) (0 + 1)) with false
    by (symmetry; apply Nat.leb_gt; destruct sp1; [congruence | cbn; lia]).
  cbn [skipn]. replace (length sp1 + 1 - 0 - 1) with (length sp1) by lia.
  rewrite firstn_app, firstn_all, Nat.sub_diag. cbn [firstn]. rewrite app_nil_r.
  unfold last_end. destruct sp1 as [|[c [a e]] sp1']; [congruence|].
  destruct (rev ((c, (a, e)) :: sp1')) as [|[c' [a' b]] r] eqn:Er.
  - exfalso. apply (f_equal (@length _)) in Er. rewrite rev_length in Er. discriminate.
  - cbn [Nat.eqb]. unfold substr. cbn [skipn]. rewrite Nat.sub_0_r. reflexivity.
Qed.

Lemma as_path_after_front1 s fst sp2 : spans s = fst :: sp2 -> sp2 <> [] ->
  as_path_after s 1 0 = substr s (first_start sp2) (last_end sp2).
Proof.
  intros Hs Hne. unfold as_path_after. rewrite Hs. cbn [length].
  replace (Nat.leb (S (length sp2)) (1 + 0)) with false
    by (symmetry; apply Nat.leb_gt; destruct sp2; [congruence | cbn; lia]).
  cbn [skipn]. replace (S (length sp2) - 1 - 0) with (length sp2) by lia.
  rewrite firstn_all. unfold last_end, first_start. destruct sp2 as [|[c [a e]] sp2']; [congruence|].
  destruct (rev ((c, (a, e)) :: sp2')) as [|[c' [a' b]] r] eqn:Er.
  - exfalso. apply (f_equal (@length _)) in Er. rewrite rev_length in Er. discriminate.
  - reflexivity.
Qed.

Lemma last_end_spans_of cs pos : cs <> [] ->
  last_end (spans_of cs pos) = pos + length (join_names (map comp_str cs)).
Proof.
  intros Hne. destruct (exists_last Hne) as (ds & e & ->). unfold last_end. rewrite last_spans_of. reflexivity.
Qed.

Lemma last_end_cons x sp : sp <> [] -> last_end (x :: sp) = last_end sp.
Proof.
  intros Hne. unfold last_end. cbn [rev]. destruct (rev sp) as [|y r] eqn:E.
  - exfalso. apply (f_equal (@length _)) in E. rewrite rev_length in E. destruct sp; [congruence | discriminate].
  - reflexivity.
Qed.

Lemma spans_of_nonempty cs pos : cs <> [] -> spans_of cs pos <> [].
Proof. destruct cs; [congruence | discriminate]. Qed.

(* B1: Path::parent / dir *)
Lemma parent_abs_of_snoc ns n : Forall is_name ns -> is_name n -> parent (abs_of (ns ++ [n])) = Some (abs_of ns).
Proof.
  intros Hns Hn.
  assert (Hall : Forall is_name (ns ++ [n])) by (apply Forall_app; split; [assumption | constructor; [assumption | constructor]]).
  assert (Hsp : spans (abs_of (ns ++ [n])) =
                ((CRoot, (0, 1)) :: spans_of (map CNormal ns) 1) ++
                [(CNormal n, (1 + length (join_names (map comp_str (map CNormal ns))) + (if map CNormal ns then 0 else 1),
                              1 + length (join_names (map comp_str (map CNormal ns ++ [CNormal n])))))]).
  { unfold abs_of. rewrite (spans_rooted _ (names_tailc' _ Hall)). rewrite map_app. cbn [map app].
    f_equal. rewrite <- (rev_involutive (spans_of _ 1)). rewrite last_spans_of. cbn [rev]. rewrite rev_involutive. reflexivity. }
  unfold parent. rewrite Hsp. rewrite rev_app_distr. cbn [rev app]. f_equal.
  rewrite (as_path_after_back1 _ _ _ Hsp ltac:(discriminate)).
  assert (Hle : last_end ((CRoot, (0, 1)) :: spans_of (map CNormal ns) 1) = 1 + length (join_names ns)).
  { destruct ns as [|m ns'].
    - reflexivity.
    - rewrite last_end_cons by (apply spans_of_nonempty; discriminate).
      rewrite last_end_spans_of by discriminate. rewrite map_map. cbn [comp_str]. rewrite map_id. reflexivity. }
  rewrite Hle. rewrite (abs_of_string _ Hall), (abs_of_string _ Hns). cbn [firstn Nat.add]. f_equal.
  destruct ns as [|m ns']; [reflexivity|]. apply firstn_join_prefix; discriminate.
Qed.

Lemma parent_root : parent (abs_of []) = None.
Proof. reflexivity. Qed.

(* B2: the last component / file name *)
Lemma components_abs_of ns : Forall is_name ns -> components (abs_of ns) = CRoot :: map CNormal ns.
Proof. intros H. apply components_render_rooted. apply names_tailc'. exact H. Qed.

Lemma file_name_abs_of_snoc ns n : Forall is_name ns -> is_name n -> file_name (abs_of (ns ++ [n])) = Some n.
Proof.
  intros Hns Hn. unfold file_name. rewrite components_abs_of by (apply Forall_app; split; [assumption | constructor; [assumption | constructor]]).
  rewrite map_app. cbn [map]. change (CRoot :: map CNormal ns ++ [CNormal n]) with ((CRoot :: map CNormal ns) ++ [CNormal n]).
  rewrite rev_app_distr. reflexivity.
Qed.

(* B4: trim_first on an unrooted canonical path drops exactly the first component *)
Lemma as_path_after_front cs c : Forall tailc_ok (c :: cs) ->
  as_path_after (render (c :: cs)) 1 0 = render cs.
Proof.
  intros H. inversion H as [|? ? Hc Hcs]; subst.
  destruct cs as [|d cs].
  - unfold as_path_after. rewrite spans_unrooted by (try discriminate; assumption). reflexivity.
  - assert (Hsp : spans (render (c :: d :: cs)) =
                  (c, (0, 0 + length (comp_str c))) :: spans_of (d :: cs) (0 + length (comp_str c) + 1))
      by (rewrite spans_unrooted by (try discriminate; assumption); reflexivity).
    rewrite (as_path_after_front1 _ _ _ Hsp ltac:(discriminate)).
    rewrite last_end_spans_of by discriminate. cbn [spans_of first_start].
    assert (HN : Forall nonroot_ok (c :: d :: cs)) by (eapply Forall_impl; [|exact H]; apply tailc_nonroot).
    assert (HN' : Forall nonroot_ok (d :: cs)) by (inversion HN; assumption).
    rewrite render_unrooted by (try discriminate; assumption).
    rewrite (render_unrooted (d :: cs)) by (try discriminate; assumption).
    change (map comp_str (c :: d :: cs)) with (comp_str c :: map comp_str (d :: cs)).
    rewrite join_names_cons by discriminate.
    unfold substr.
    replace (0 + length (comp_str c) + 1) with (length (comp_str c ++ [slash])) by (rewrite app_length; cbn; lia).
    change (comp_str c ++ slash :: join_names (map comp_str (d :: cs))) with (comp_str c ++ [slash] ++ join_names (map comp_str (d :: cs))).
    rewrite app_assoc, skipn_app, skipn_all, Nat.sub_diag. cbn [skipn app].
    apply firstn_all2. lia.
Qed.

(* Base/Utf8.v — UTF-8 validity of a byte sequence as core::str::from_utf8 decides it (RFC 3629:
   shortest form, no surrogates, at most U+10FFFF), and BufRead::lines splitting. *)
From Coq Require Import List NArith Bool.
Import ListNotations.
Local Open Scope N_scope.

Definition in_range (lo hi b : N) : bool := N.leb lo b && N.leb b hi.
Definition cont (b : N) : bool := in_range 128 191 b.

Fixpoint valid_utf8_fuel (fuel : nat) (bs : list N) : bool :=
  match fuel with
  | O => false
  | S f =>
    match bs with
    | [] => true
    | b0 :: r =>
        if N.leb b0 127 then valid_utf8_fuel f r
        else if in_range 194 223 b0 then
          match r with b1 :: r' => cont b1 && valid_utf8_fuel f r' | _ => false end
        else if N.eqb b0 224 then
          match r with b1 :: b2 :: r' => in_range 160 191 b1 && cont b2 && valid_utf8_fuel f r' | _ => false end
        else if in_range 225 236 b0 || in_range 238 239 b0 then
          match r with b1 :: b2 :: r' => cont b1 && cont b2 && valid_utf8_fuel f r' | _ => false end
        else if N.eqb b0 237 then
          match r with b1 :: b2 :: r' => in_range 128 159 b1 && cont b2 && valid_utf8_fuel f r' | _ => false end
        else if N.eqb b0 240 then
          match r with b1 :: b2 :: b3 :: r' => in_range 144 191 b1 && cont b2 && cont b3 && valid_utf8_fuel f r' | _ => false end
        else if in_range 241 243 b0 then
          match r with b1 :: b2 :: b3 :: r' => cont b1 && cont b2 && cont b3 && valid_utf8_fuel f r' | _ => false end
        else if N.eqb b0 244 then
          match r with b1 :: b2 :: b3 :: r' => in_range 128 143 b1 && cont b2 && cont b3 && valid_utf8_fuel f r' | _ => false end
        else false
    end
  end.
Definition valid_utf8 (bs : list N) : bool := valid_utf8_fuel (S (length bs)) bs.

(* BufRead::lines on bytes: split after every '\n'; a final segment without '\n' is a line too; the
   '\n' and a '\r' directly before it are stripped *)
(* the finished line (held reversed): drop a '\r' directly before the '\n' *)
Definition finish_line (acc : list N) : list N :=
  match acc with c :: acc' => if N.eqb c 13 then rev acc' else rev acc | [] => [] end.

Fixpoint split_lines (bs : list N) (acc : list N) : list (list N) :=
  match bs with
  | [] => match acc with [] => [] | _ => [rev acc] end
  | b :: r =>
      if N.eqb b 10 then finish_line acc :: split_lines r []
      else split_lines r (b :: acc)
  end.
Definition lines_of (bs : list N) : list (list N) := split_lines bs [].

Fixpoint join_lines (ls : list (list N)) : list N :=
  match ls with
  | [] => []
  | [l] => l
  | l :: ls' => l ++ 10 :: join_lines ls'
  end.

(* Base/PathLexFacts.v — facts about the std::path model: split/join round trips, rendering of
   canonical component lists, components of a rendered canonical list. *)
From Coq Require Import List NArith Bool Lia Arith.
Import ListNotations.
From RV Require Import Base.Str Base.PathLex.

Definition noslash (g : str) : Prop := Forall (fun c => c <> slash) g.
Definition is_name (g : str) : Prop := g <> [] /\ noslash g /\ g <> [dot] /\ g <> [dot; dot].

(* intercalate with '/' *)
Fixpoint join_names (ns : list str) : str :=
  match ns with [] => [] | [n] => n | n :: ns' => n ++ slash :: join_names ns' end.

Lemma join_names_cons n ns : ns <> [] -> join_names (n :: ns) = n ++ slash :: join_names ns.
Proof. destruct ns; [congruence | reflexivity]. Qed.

Lemma join_names_snoc ns n : ns <> [] -> join_names (ns ++ [n]) = join_names ns ++ slash :: n.
Proof.
  induction ns as [|m ns IH]; [congruence|]. intros _. destruct ns as [|k ns].
  - reflexivity.
  - change ((m :: k :: ns) ++ [n]) with (m :: ((k :: ns) ++ [n])).
    rewrite join_names_cons by (destruct ns; discriminate).
    rewrite IH by discriminate. rewrite (join_names_cons m (k :: ns)) by discriminate.
    rewrite <- app_assoc. reflexivity.
Qed.

(* ---- segs / split ---- *)
Lemma segs_nonempty sep s acc : segs sep s acc <> [].
Proof. revert acc; induction s as [|c s IH]; intros acc; simpl; [discriminate|]. destruct (N.eqb c sep); [discriminate | apply IH]. Qed.

Lemma split_nonempty s : split s <> [].
Proof. apply segs_nonempty. Qed.

Lemma segs_app_noslash g t acc : noslash g ->
  segs slash (g ++ slash :: t) acc = rev (rev g ++ acc) :: segs slash t [].
Proof.
  revert acc; induction g as [|c g IH]; intros acc H; simpl.
  - reflexivity.
  - inversion H; subst. destruct (N.eqb_spec c slash); [contradiction|].
    rewrite IH by assumption. simpl. rewrite <- app_assoc. reflexivity.
Qed.

Lemma segs_noslash g acc : noslash g -> segs slash g acc = [rev (rev g ++ acc)].
Proof.
  revert acc; induction g as [|c g IH]; intros acc H; simpl; [reflexivity|].
  inversion H; subst. destruct (N.eqb_spec c slash); [contradiction|].
  rewrite IH by assumption. simpl. rewrite <- app_assoc. reflexivity.
Qed.

Lemma split_join ns : Forall noslash ns -> ns <> [] -> split (join_names ns) = ns.
Proof.
  unfold split, split_on. induction ns as [|n ns IH]; intros HF Hne; [congruence|].
  inversion HF as [|? ? Hn HF']; subst. destruct ns as [|m ns].
  - simpl. rewrite segs_noslash by assumption. rewrite app_nil_r, rev_involutive. reflexivity.
  - rewrite join_names_cons by discriminate. rewrite segs_app_noslash by assumption.
    rewrite app_nil_r, rev_involutive. f_equal. apply IH; [assumption|congruence].
Qed.

Lemma split_slash_join ns : Forall noslash ns -> ns <> [] -> split (slash :: join_names ns) = [] :: ns.
Proof.
  intros HF Hne. unfold split, split_on. cbn [segs]. rewrite N.eqb_refl. cbn [rev]. f_equal.
  apply split_join; assumption.
Qed.

(* every segment produced by split is free of separators *)
Lemma segs_all_noslash s acc : noslash acc -> Forall noslash (segs slash s acc).
Proof.
  revert acc; induction s as [|c s IH]; intros acc Ha; simpl.
  - constructor; [|constructor]. unfold noslash in *. apply Forall_rev. exact Ha.
  - destruct (N.eqb_spec c slash).
    + constructor; [unfold noslash in *; apply Forall_rev; exact Ha | apply IH; constructor].
    + apply IH. constructor; assumption.
Qed.

Lemma split_all_noslash s : Forall noslash (split s).
Proof. apply segs_all_noslash. constructor. Qed.

(* join is a left inverse of split, for every string *)
Lemma join_segs s acc : join_names (segs slash s acc) = rev acc ++ s.
Proof.
  revert acc; induction s as [|c s IH]; intros acc; simpl.
  - rewrite app_nil_r. reflexivity.
  - destruct (N.eqb_spec c slash).
    + subst c. rewrite join_names_cons by apply segs_nonempty. rewrite IH. reflexivity.
    + rewrite IH. simpl. rewrite <- app_assoc. reflexivity.
Qed.

Lemma join_split s : join_names (split s) = s.
Proof. apply (join_segs s []). Qed.

(* ---- seg_comp on names ---- *)
Lemma seg_comp_name b g : is_name g -> seg_comp b g = [CNormal g].
Proof.
  intros (Hne & _ & Hd & Hdd). destruct g as [|a [|a2 [|a3 g]]]; simpl; try congruence.
  - destruct (N.eqb_spec a dot); [subst; congruence | reflexivity].
  - destruct (N.eqb_spec a dot), (N.eqb_spec a2 dot); simpl; subst; congruence.
Qed.

Lemma seg_comp_dotdot b : seg_comp b [dot; dot] = [CParent].
Proof. reflexivity. Qed.

(* a CNormal produced by seg_comp carries a proper name *)
Lemma seg_comp_normal_name b g n : noslash g -> In (CNormal n) (seg_comp b g) -> is_name n.
Proof.
  intros Hns. destruct g as [|a [|a2 [|a3 g]]]; simpl.
  - intros [].
  - destruct (N.eqb_spec a dot).
    + destruct b; simpl; intros H; [destruct H as [H|[]]; discriminate | contradiction].
    + intros [H|[]]. injection H as <-. repeat split; try discriminate; try assumption. congruence.
  - destruct (N.eqb_spec a dot), (N.eqb_spec a2 dot); simpl; intros [H|[]]; try discriminate;
      injection H as <-; repeat split; try discriminate; try assumption; congruence.
  - intros [H|[]]. injection H as <-. repeat split; try discriminate; assumption.
Qed.

Definition comp_name_ok (c : comp) : Prop := match c with CNormal n => is_name n | _ => True end.

Lemma components_names_ok s : Forall comp_name_ok (components s).
Proof.
  unfold components. pose proof (split_all_noslash s) as Hall. destruct (split s) as [|g gs]; [constructor|].
  inversion Hall as [|? ? Hg Hgs]; subst.
  assert (Hseg : forall b g, noslash g -> Forall comp_name_ok (seg_comp b g)).
  { intros b g0 H0. apply Forall_forall. intros c Hc. destruct c; simpl; auto.
    eapply seg_comp_normal_name; eauto. }
  apply Forall_app; split; [destruct (is_rooted s); repeat constructor|].
  apply Forall_app; split; [apply Hseg; assumption|].
  clear Hall Hg. induction gs as [|h gs IH]; simpl; [constructor|].
  inversion Hgs; subst. apply Forall_app; split; [apply Hseg; assumption | apply IH; assumption].
Qed.

(* ---- rendering ---- *)
Definition nonroot_ok (c : comp) : Prop :=
  match c with CRoot => False | CNormal n => is_name n | _ => True end.

Lemma comp_str_nonroot c : nonroot_ok c -> comp_str c <> [] /\ noslash (comp_str c).
Proof.
  destruct c; simpl; try contradiction.
  - intros _. split; [discriminate|]. repeat constructor; discriminate.
  - intros _. split; [discriminate|]. repeat constructor; discriminate.
  - intros (H1 & H2 & _). split; assumption.
Qed.

Lemma is_rooted_noslash g : g <> [] -> noslash g -> is_rooted g = false.
Proof.
  destruct g as [|c g]; [congruence|]. intros _ H. inversion H; subst. simpl.
  apply N.eqb_neq. assumption.
Qed.

Lemma last_char_snoc s c : last_char (s ++ [c]) = Some c.
Proof. unfold last_char. rewrite rev_app_distr. reflexivity. Qed.

Lemma last_char_app_nonempty s t : t <> [] -> last_char (s ++ t) = last_char t.
Proof.
  intros H. destruct (exists_last H) as (t' & c & ->). rewrite app_assoc, !last_char_snoc. reflexivity.
Qed.

Lemma last_char_noslash g : g <> [] -> noslash g -> exists c, last_char g = Some c /\ c <> slash.
Proof.
  intros H Hn. destruct (exists_last H) as (g' & c & ->). exists c. rewrite last_char_snoc. split; [reflexivity|].
  unfold noslash in Hn. apply Forall_app in Hn as [_ Hn]. inversion Hn; assumption.
Qed.

Lemma render_snoc cs c : render (cs ++ [c]) = push (render cs) (comp_str c).
Proof. unfold render. rewrite fold_left_app. reflexivity. Qed.

Lemma join_names_last_noslash ns : ns <> [] -> Forall (fun g => g <> [] /\ noslash g) ns ->
  exists c, last_char (join_names ns) = Some c /\ c <> slash.
Proof.
  intros Hne HF. destruct (exists_last Hne) as (ns' & n & ->).
  apply Forall_app in HF as [_ Hn]. inversion Hn as [|? ? [Hn1 Hn2] _]; subst.
  destruct ns' as [|m ns'].
  - simpl. apply last_char_noslash; assumption.
  - rewrite join_names_snoc by discriminate.
    change (slash :: n) with ([slash] ++ n). rewrite app_assoc.
    rewrite last_char_app_nonempty by assumption. apply last_char_noslash; assumption.
Qed.

Lemma render_unrooted cs : cs <> [] -> Forall nonroot_ok cs -> render cs = join_names (map comp_str cs).
Proof.
  induction cs as [|c cs IH] using rev_ind; [congruence|]. intros _ HF.
  apply Forall_app in HF as [HF Hc]. inversion Hc as [|? ? Hc' _]; subst.
  destruct (comp_str_nonroot _ Hc') as [Hne Hns].
  rewrite render_snoc. destruct cs as [|d cs].
  - simpl. unfold push. rewrite is_rooted_noslash by assumption. reflexivity.
  - rewrite IH by (try discriminate; assumption). rewrite map_app.
    change (map comp_str [c]) with [comp_str c].
    rewrite join_names_snoc by discriminate.
    unfold push. rewrite is_rooted_noslash by assumption.
    assert (HF' : Forall (fun g => g <> [] /\ noslash g) (map comp_str (d :: cs))).
    { apply Forall_map. eapply Forall_impl; [|exact HF]. intros a Ha. apply comp_str_nonroot; assumption. }
    destruct (join_names_last_noslash (map comp_str (d :: cs)) ltac:(discriminate) HF') as (ch & Hl & Hch).
    rewrite Hl. destruct (N.eqb_spec ch slash); [contradiction|].
    destruct (join_names (map comp_str (d :: cs))) eqn:E.
    + unfold last_char in Hl. simpl in Hl. discriminate.
    + reflexivity.
Qed.

Lemma render_rooted cs : Forall nonroot_ok cs -> render (CRoot :: cs) = slash :: join_names (map comp_str cs).
Proof.
  induction cs as [|c cs IH] using rev_ind; [reflexivity|]. intros HF.
  apply Forall_app in HF as [HF Hc]. inversion Hc as [|? ? Hc' _]; subst.
  destruct (comp_str_nonroot _ Hc') as [Hne Hns].
  change (CRoot :: cs ++ [c]) with ((CRoot :: cs) ++ [c]). rewrite render_snoc, IH by assumption.
  unfold push. rewrite is_rooted_noslash by assumption. destruct cs as [|d cs].
  - simpl. unfold last_char. simpl. reflexivity.
  - rewrite map_app. change (map comp_str [c]) with [comp_str c]. rewrite join_names_snoc by discriminate.
    assert (HF' : Forall (fun g => g <> [] /\ noslash g) (map comp_str (d :: cs))).
    { apply Forall_map. eapply Forall_impl; [|exact HF]. intros a Ha. apply comp_str_nonroot; assumption. }
    destruct (join_names_last_noslash (map comp_str (d :: cs)) ltac:(discriminate) HF') as (ch & Hl & Hch).
    change (slash :: join_names (map comp_str (d :: cs))) with ([slash] ++ join_names (map comp_str (d :: cs))).
    rewrite last_char_app_nonempty.
    2:{ intros E. rewrite E in Hl. discriminate. }
    rewrite Hl. destruct (N.eqb_spec ch slash); [contradiction|]. reflexivity.
Qed.

(* ---- components of a rendered canonical list ---- *)
Definition tailc_ok (c : comp) : Prop :=
  match c with CRoot | CCur => False | CNormal n => is_name n | CParent => True end.

Lemma tailc_nonroot c : tailc_ok c -> nonroot_ok c.
Proof. destruct c; simpl; auto. Qed.

Lemma seg_comp_tailc b c : tailc_ok c -> seg_comp b (comp_str c) = [c].
Proof. destruct c; simpl; try contradiction; [reflexivity | apply seg_comp_name]. Qed.

Lemma flat_map_seg_comp cs : Forall tailc_ok cs -> flat_map (seg_comp false) (map comp_str cs) = cs.
Proof.
  induction 1 as [|c cs Hc _ IH]; [reflexivity|]. cbn [map flat_map]. rewrite seg_comp_tailc by assumption.
  rewrite IH. reflexivity.
Qed.

Lemma map_comp_str_noslash cs : Forall tailc_ok cs -> Forall noslash (map comp_str cs).
Proof.
  intros H. apply Forall_map. eapply Forall_impl; [|exact H]. intros c Hc.
  apply comp_str_nonroot. apply tailc_nonroot. exact Hc.
Qed.

Lemma components_render_unrooted cs : cs <> [] -> Forall tailc_ok cs -> components (render cs) = cs.
Proof.
  intros Hne HF.
  assert (HN : Forall nonroot_ok cs) by (eapply Forall_impl; [|exact HF]; apply tailc_nonroot).
  rewrite render_unrooted by assumption.
  assert (Hm : map comp_str cs <> []) by (destruct cs; [congruence|discriminate]).
  unfold components. rewrite (split_join _ (map_comp_str_noslash _ HF) Hm).
  destruct cs as [|c cs]; [congruence|]. inversion HF as [|? ? Hc HF']; subst. cbn [map].
  assert (Hr : is_rooted (join_names (comp_str c :: map comp_str cs)) = false).
  { destruct (comp_str_nonroot c (tailc_nonroot c Hc)) as [H1 H2].
    destruct (comp_str c) as [|ch g] eqn:E; [congruence|]. inversion H2; subst.
    destruct (map comp_str cs); simpl; apply N.eqb_neq; assumption. }
  rewrite Hr. cbn [negb app]. rewrite seg_comp_tailc by assumption. rewrite flat_map_seg_comp by assumption.
  reflexivity.
Qed.

Lemma components_render_rooted cs : Forall tailc_ok cs -> components (render (CRoot :: cs)) = CRoot :: cs.
Proof.
  intros HF.
  assert (HN : Forall nonroot_ok cs) by (eapply Forall_impl; [|exact HF]; apply tailc_nonroot).
  rewrite render_rooted by assumption.
  destruct cs as [|c cs].
  - reflexivity.
  - assert (Hm : map comp_str (c :: cs) <> []) by discriminate.
    unfold components. rewrite (split_slash_join _ (map_comp_str_noslash _ HF) Hm).
    cbn [is_rooted]. rewrite N.eqb_refl. cbn [negb seg_comp app]. rewrite flat_map_seg_comp by assumption. reflexivity.
Qed.

Lemma components_dot : components [dot] = [CCur].
Proof. reflexivity. Qed.


(* Base/Str.v — strings as lists of Unicode scalar values.
   Models of the `str` primitives rivia uses (starts_with, ends_with, contains, find, split,
   chars().count(), slicing at char boundaries).  Modelled, not verified: see DESIGN.md §4. *)
From Coq Require Import List NArith Bool Lia Arith.
Import ListNotations.

Notation char := N (only parsing).
Notation str := (list N) (only parsing).

Definition slash : N := 47%N.
Definition dot : N := 46%N.
Definition colon : N := 58%N.
Definition tilde : N := 126%N.
Definition dollar : N := 36%N.
Definition lbrace : N := 123%N.
Definition rbrace : N := 125%N.
Definition newline : N := 10%N.

(* outcome of a mirrored Rust computation: a value, a panic, or fuel exhaustion *)
Inductive outcome (A : Type) := Done (a : A) | Panic | OutOfFuel.
Arguments Done {A}. Arguments Panic {A}. Arguments OutOfFuel {A}.

Definition obind {A B} (o : outcome A) (f : A -> outcome B) : outcome B :=
  match o with Done a => f a | Panic => Panic | OutOfFuel => OutOfFuel end.

Fixpoint str_eqb (a b : str) : bool :=
  match a, b with
  | [], [] => true
  | x :: a', y :: b' => N.eqb x y && str_eqb a' b'
  | _, _ => false
  end.

Lemma str_eqb_eq a b : str_eqb a b = true <-> a = b.
Proof.
  revert b; induction a as [|x a IH]; destruct b as [|y b]; simpl; split; try congruence; try discriminate.
  - intros H. apply andb_true_iff in H as [H1 H2]. apply N.eqb_eq in H1. apply IH in H2. congruence.
  - intros H. injection H as -> ->. apply andb_true_iff; split; [apply N.eqb_refl | apply IH; reflexivity].
Qed.

Lemma str_eqb_refl a : str_eqb a a = true.
Proof. apply str_eqb_eq; reflexivity. Qed.

Lemma str_eqb_neq a b : str_eqb a b = false <-> a <> b.
Proof.
  split.
  - intros H E. apply str_eqb_eq in E. congruence.
  - intros H. destruct (str_eqb a b) eqn:E; [apply str_eqb_eq in E; contradiction | reflexivity].
Qed.

(* str::starts_with *)
Fixpoint starts_with (s p : str) {struct p} : bool :=
  match p, s with
  | [], _ => true
  | y :: p', x :: s' => N.eqb x y && starts_with s' p'
  | _ :: _, [] => false
  end.

Lemma starts_with_app s p : starts_with (p ++ s) p = true.
Proof. induction p as [|y p IH]; simpl; [reflexivity|]. rewrite N.eqb_refl. exact IH. Qed.

Lemma starts_with_iff s p : starts_with s p = true <-> exists t, s = p ++ t.
Proof.
  revert s; induction p as [|y p IH]; intros s; simpl.
  - split; [intros _; exists s; reflexivity | reflexivity].
  - destruct s as [|x s].
    + split; [discriminate | intros [t H]; discriminate].
    + rewrite andb_true_iff, N.eqb_eq, IH. split.
      * intros [-> [t ->]]. exists t. reflexivity.
      * intros [t H]. injection H as -> ->. split; [reflexivity | exists t; reflexivity].
Qed.

(* str::ends_with *)
Definition ends_with (s p : str) : bool := starts_with (rev s) (rev p).

Lemma ends_with_app s p : ends_with (s ++ p) p = true.
Proof. unfold ends_with. rewrite rev_app_distr. apply starts_with_app. Qed.

Lemma ends_with_iff s p : ends_with s p = true <-> exists t, s = t ++ p.
Proof.
  unfold ends_with. rewrite starts_with_iff. split.
  - intros [t H]. exists (rev t). apply (f_equal (@rev N)) in H.
    rewrite rev_involutive, rev_app_distr, rev_involutive in H. exact H.
  - intros [t ->]. exists (rev t). apply rev_app_distr.
Qed.

(* str::find(pat) -> index in chars of the first occurrence; str::contains *)
Fixpoint find_from (s p : str) (i : nat) : option nat :=
  if starts_with s p then Some i
  else match s with
       | [] => None
       | _ :: s' => find_from s' p (S i)
       end.
Definition find (s p : str) : option nat := find_from s p 0.
Definition contains (s p : str) : bool := match find s p with Some _ => true | None => false end.

Lemma find_from_some s p i k : find_from s p i = Some k ->
  exists a b, s = a ++ p ++ b /\ k = i + length a.
Proof.
  revert i; induction s as [|x s IH]; intros i; simpl.
  - destruct (starts_with [] p) eqn:E; [|discriminate].
    intros H; injection H as <-. apply starts_with_iff in E as [t E].
    exists [], t. split; [exact E | simpl; lia].
  - destruct (starts_with (x :: s) p) eqn:E.
    + intros H; injection H as <-. apply starts_with_iff in E as [t E].
      exists [], t. split; [exact E | simpl; lia].
    + intros H. apply IH in H as (a & b & -> & ->). exists (x :: a), b. split; [reflexivity | simpl; lia].
Qed.

Lemma find_from_none s p i : find_from s p i = None -> forall a b, s <> a ++ p ++ b.
Proof.
  revert i; induction s as [|x s IH]; intros i; simpl.
  - destruct (starts_with [] p) eqn:E; [discriminate|]. intros _ a b H.
    destruct a; [|discriminate]. simpl in H.
    assert (starts_with [] p = true) by (apply starts_with_iff; exists b; exact H). congruence.
  - destruct (starts_with (x :: s) p) eqn:E; [discriminate|]. intros H a b Hs.
    destruct a as [|y a].
    + simpl in Hs. assert (starts_with (x :: s) p = true) by (apply starts_with_iff; exists b; exact Hs). congruence.
    + injection Hs as -> Hs. exact (IH _ H a b Hs).
Qed.

Lemma contains_iff s p : contains s p = true <-> exists a b, s = a ++ p ++ b.
Proof.
  unfold contains, find. destruct (find_from s p 0) eqn:E; split; try discriminate; try reflexivity.
  - intros _. apply find_from_some in E as (a & b & H & _). exists a, b; exact H.
  - intros (a & b & H). exfalso. exact (find_from_none _ _ _ E a b H).
Qed.

(* split on a separator char: acc is the reversed current segment *)
Fixpoint segs (sep : N) (s : str) (acc : str) : list str :=
  match s with
  | [] => [rev acc]
  | c :: t => if N.eqb c sep then rev acc :: segs sep t [] else segs sep t (c :: acc)
  end.
Definition split_on (sep : N) (s : str) : list str := segs sep s [].

(* count occurrences of a char: str.matches(c).count() *)
Definition count_char (c : N) (s : str) : nat := length (filter (N.eqb c) s).

Definition last_char (s : str) : option N :=
  match rev s with [] => None | c :: _ => Some c end.

(* ASCII lower-casing (the only part of to_lowercase the models rely on; see DESIGN §4.3) *)
Definition ascii_lower (c : N) : N := if (N.leb 65 c && N.leb c 90)%bool then (c + 32)%N else c.

(* Xdg/Dirs.v — mirror of src/sys/user.rs (XDG directory lookup, getrids) and of
   Memfs/Stdfs::config_dir, over an environment map.  Variable names and defaults come from the
   generated Gen/Consts.v (lifted from the current source on every run). *)
From Coq Require Import List NArith Bool Lia Arith.
Import ListNotations.
From RV Require Import Base.Str Base.PathLex Path.Helpers Path.Expand Gen.Consts.

Definition home (env : envmap) : res str :=
  match env c_home_var with Some h => Ok h | None => Err EVarNotPresent end.

(* match env::var(VAR) { Ok(x) => x, Err(_) => home_dir()?.mash(a).mash(b).. } *)
Definition xdg_home_dir (env : envmap) (var : str) (default : list str) : res str :=
  match env var with
  | Some x => Ok x
  | None => match home env with
            | inl h => Ok (fold_left mash default h)
            | inr e => Err e
            end
  end.

Definition config_dir (env : envmap) := xdg_home_dir env c_config_dir_var c_config_dir_default.
Definition cache_dir (env : envmap) := xdg_home_dir env c_cache_dir_var c_cache_dir_default.
Definition data_dir (env : envmap) := xdg_home_dir env c_data_dir_var c_data_dir_default.
Definition state_dir (env : envmap) := xdg_home_dir env c_state_dir_var c_state_dir_default.

Definition runtime_dir (env : envmap) : str :=
  match env c_runtime_dir_var with Some x => x | None => c_runtime_dir_default end.

Definition xdg_dirs (env : envmap) (var : str) (default : list str) : list str :=
  match env var with
  | Some x => match parse_paths x with [] => default | ps => ps end
  | None => default
  end.
Definition sys_data_dirs (env : envmap) := xdg_dirs env c_sys_data_dirs_var c_sys_data_dirs_default.
Definition sys_config_dirs (env : envmap) := xdg_dirs env c_sys_config_dirs_var c_sys_config_dirs_default.

Definition path_dirs (env : envmap) : res (list str) :=
  match env c_path_dirs_var with Some x => Ok (parse_paths x) | None => Err EVarNotPresent end.

(* str::parse::<u32>: an optional '+', then one or more decimal digits, value <= 2^32 - 1 *)
Definition is_digit (c : N) : bool := N.leb 48 c && N.leb c 57.
Definition parse_u32 (s : str) : option N :=
  let digits := match s with c :: r => if N.eqb c 43 then r else s | [] => [] end in
  match digits with
  | [] => None
  | _ => if forallb is_digit digits
         then let v := fold_left (fun acc c => (acc * 10 + (c - 48))%N) digits 0%N in
              if N.leb v 4294967295 then Some v else None
         else None
  end.

Definition getrids (env : envmap) (uid gid : N) : N * N :=
  if N.eqb uid 0 then
    match env c_sudo_uid_var, env c_sudo_gid_var with
    | Some u, Some g => match parse_u32 u, parse_u32 g with
                        | Some u', Some g' => (u', g')
                        | _, _ => (uid, gid)
                        end
    | _, _ => (uid, gid)
    end
  else (uid, gid).

(* vfs.config_dir(name): the first of config_dir :: sys_config_dirs that contains name *)
Definition vfs_config_dir (env : envmap) (exists_ : str -> bool) (name : str) : option str :=
  match config_dir env with
  | inl cd => List.find (fun d => exists_ (mash d name)) (cd :: sys_config_dirs env)
  | inr _ => None
  end.

(* Xdg/DirsFacts.v — proofs for C18.  The specification side spells out the XDG names and
   defaults itself (from the XDG Base Directory specification), so a changed literal in the source
   changes Gen/Consts.v and breaks these proofs. *)
From Coq Require Import List NArith Bool Lia Arith String Ascii.
Import ListNotations.
From RV Require Import Base.Str Base.PathLex Path.Helpers Path.Expand Gen.Consts Xdg.Dirs.
Local Open Scope string_scope.
Local Open Scope list_scope.

Definition s_of (s : string) : list N := map (fun a => N.of_nat (nat_of_ascii a)) (list_ascii_of_string s).
Definition V (s : string) : list N := s_of s.

(* config/cache/data/state: the variable's value when set, else the default under $HOME *)
Lemma config_dir_set env x : env (V "XDG_CONFIG_HOME") = Some x -> config_dir env = Ok x.
Proof. intros H. unfold config_dir, xdg_home_dir. change c_config_dir_var with (V "XDG_CONFIG_HOME"). rewrite H. reflexivity. Qed.
Lemma config_dir_unset env h : env (V "XDG_CONFIG_HOME") = None -> env (V "HOME") = Some h ->
  config_dir env = Ok (mash h (V ".config")).
Proof.
  intros H Hh. unfold config_dir, xdg_home_dir, home. change c_config_dir_var with (V "XDG_CONFIG_HOME").
  change c_home_var with (V "HOME"). rewrite H, Hh. reflexivity.
Qed.
Lemma cache_dir_set env x : env (V "XDG_CACHE_HOME") = Some x -> cache_dir env = Ok x.
Proof. intros H. unfold cache_dir, xdg_home_dir. change c_cache_dir_var with (V "XDG_CACHE_HOME"). rewrite H. reflexivity. Qed.
Lemma cache_dir_unset env h : env (V "XDG_CACHE_HOME") = None -> env (V "HOME") = Some h ->
  cache_dir env = Ok (mash h (V ".cache")).
Proof.
  intros H Hh. unfold cache_dir, xdg_home_dir, home. change c_cache_dir_var with (V "XDG_CACHE_HOME").
  change c_home_var with (V "HOME"). rewrite H, Hh. reflexivity.
Qed.
Lemma data_dir_set env x : env (V "XDG_DATA_HOME") = Some x -> data_dir env = Ok x.
Proof. intros H. unfold data_dir, xdg_home_dir. change c_data_dir_var with (V "XDG_DATA_HOME"). rewrite H. reflexivity. Qed.
Lemma data_dir_unset env h : env (V "XDG_DATA_HOME") = None -> env (V "HOME") = Some h ->
  data_dir env = Ok (mash (mash h (V ".local")) (V "share")).
Proof.
  intros H Hh. unfold data_dir, xdg_home_dir, home. change c_data_dir_var with (V "XDG_DATA_HOME").
  change c_home_var with (V "HOME"). rewrite H, Hh. reflexivity.
Qed.
Lemma state_dir_set env x : env (V "XDG_STATE_HOME") = Some x -> state_dir env = Ok x.
Proof. intros H. unfold state_dir, xdg_home_dir. change c_state_dir_var with (V "XDG_STATE_HOME"). rewrite H. reflexivity. Qed.
Lemma state_dir_unset env h : env (V "XDG_STATE_HOME") = None -> env (V "HOME") = Some h ->
  state_dir env = Ok (mash (mash h (V ".local")) (V "state")).
Proof.
  intros H Hh. unfold state_dir, xdg_home_dir, home. change c_state_dir_var with (V "XDG_STATE_HOME").
  change c_home_var with (V "HOME"). rewrite H, Hh. reflexivity.
Qed.
Lemma home_dirs_need_home env : env (V "HOME") = None ->
  (env (V "XDG_CONFIG_HOME") = None -> config_dir env = Err EVarNotPresent) /\
  (env (V "XDG_CACHE_HOME") = None -> cache_dir env = Err EVarNotPresent) /\
  (env (V "XDG_DATA_HOME") = None -> data_dir env = Err EVarNotPresent) /\
  (env (V "XDG_STATE_HOME") = None -> state_dir env = Err EVarNotPresent).
Proof.
  intros Hh. repeat split; intros H; unfold config_dir, cache_dir, data_dir, state_dir, xdg_home_dir, home;
    [change c_config_dir_var with (V "XDG_CONFIG_HOME") | change c_cache_dir_var with (V "XDG_CACHE_HOME")
    | change c_data_dir_var with (V "XDG_DATA_HOME") | change c_state_dir_var with (V "XDG_STATE_HOME")];
    change c_home_var with (V "HOME"); rewrite H, Hh; reflexivity.
Qed.

Lemma runtime_dir_spec env :
  runtime_dir env = match env (V "XDG_RUNTIME_DIR") with Some x => x | None => V "/tmp" end.
Proof. reflexivity. Qed.

(* sys_config_dirs / sys_data_dirs: the listed directories in order without empty segments, or the
   defaults when unset or when nothing is listed *)
Definition nonempty_segments (x : list N) : list (list N) :=
  filter (fun g => negb (is_nil_str g)) (split_on colon x).

Lemma sys_config_dirs_spec env :
  sys_config_dirs env =
  match env (V "XDG_CONFIG_DIRS") with
  | Some x => match nonempty_segments x with [] => [V "/etc/xdg"] | ps => ps end
  | None => [V "/etc/xdg"]
  end.
Proof. reflexivity. Qed.

Lemma sys_data_dirs_spec env :
  sys_data_dirs env =
  match env (V "XDG_DATA_DIRS") with
  | Some x => match nonempty_segments x with [] => [V "/usr/local/share"; V "/usr/share"] | ps => ps end
  | None => [V "/usr/local/share"; V "/usr/share"]
  end.
Proof. reflexivity. Qed.

Lemma path_dirs_spec env :
  path_dirs env = match env (V "PATH") with Some x => Ok (nonempty_segments x) | None => Err EVarNotPresent end.
Proof. reflexivity. Qed.

(* vfs.config_dir: first hit in the order XDG_CONFIG_HOME (or its default), then XDG_CONFIG_DIRS *)
Lemma vfs_config_dir_first_hit env ex name cd d :
  config_dir env = Ok cd -> vfs_config_dir env ex name = Some d ->
  exists pre post, cd :: sys_config_dirs env = pre ++ d :: post /\
    ex (mash d name) = true /\ Forall (fun x => ex (mash x name) = false) pre.
Proof.
  intros Hc. unfold vfs_config_dir. rewrite Hc. unfold Ok. generalize (cd :: sys_config_dirs env) as l.
  induction l as [|x l IH]; cbn; [discriminate|]. destruct (ex (mash x name)) eqn:E.
  - intros H. injection H as <-. exists [], l. repeat split; [exact E | constructor].
  - intros H. destruct (IH H) as (pre & post & -> & H1 & H2). exists (x :: pre), post. repeat split; [exact H1|].
    constructor; assumption.
Qed.

Lemma vfs_config_dir_none env ex name :
  vfs_config_dir env ex name = None <->
  match config_dir env with
  | inl cd => Forall (fun x => ex (mash x name) = false) (cd :: sys_config_dirs env)
  | inr _ => True
  end.
Proof.
  unfold vfs_config_dir. destruct (config_dir env) as [cd|e]; [|tauto].
  generalize (cd :: sys_config_dirs env) as l. induction l as [|x l IH]; cbn.
  - split; [constructor | reflexivity].
  - destruct (ex (mash x name)) eqn:E.
    + split; [discriminate | intros H; inversion H; congruence].
    + rewrite IH. split; [intros H; constructor; assumption | intros H; inversion H; assumption].
Qed.

(* getrids: the SUDO pair only when uid is 0 and both variables parse as u32 *)
Lemma getrids_spec env uid gid :
  getrids env uid gid =
  match (if N.eqb uid 0 then
           match env (V "SUDO_UID"), env (V "SUDO_GID") with
           | Some u, Some g => match parse_u32 u, parse_u32 g with Some a, Some b => Some (a, b) | _, _ => None end
           | _, _ => None
           end
         else None) with
  | Some p => p
  | None => (uid, gid)
  end.
Proof.
  unfold getrids. change c_sudo_uid_var with (V "SUDO_UID"). change c_sudo_gid_var with (V "SUDO_GID").
  destruct (N.eqb uid 0); [|reflexivity].
  destruct (env (V "SUDO_UID")); [|reflexivity]. destruct (env (V "SUDO_GID")); [|reflexivity].
  destruct (parse_u32 l); [|reflexivity]. destruct (parse_u32 l0); reflexivity.
Qed.

Lemma getrids_nonroot env uid gid : uid <> 0%N -> getrids env uid gid = (uid, gid).
Proof. intros H. unfold getrids. apply N.eqb_neq in H. rewrite H. reflexivity. Qed.

(* parse_u32 accepts exactly: optional '+', non-empty decimal digits, value at most 2^32 - 1 *)
Lemma parse_u32_some s v : parse_u32 s = Some v -> (v <= 4294967295)%N.
Proof.
  unfold parse_u32. destruct (match s with [] => [] | c :: r => if N.eqb c 43 then r else s end); [discriminate|].
  destruct (forallb _ _); [|discriminate]. destruct (N.leb_spec (fold_left (fun acc c => (acc * 10 + (c - 48))%N) (n :: l) 0%N) 4294967295) as [Hle|Hgt]; [|discriminate].
  intros H. injection H as <-. assumption.
Qed.

Example parse_u32_examples :
  parse_u32 (V "1000") = Some 1000%N /\ parse_u32 (V "+7") = Some 7%N /\ parse_u32 (V "") = None /\
  parse_u32 (V "12a") = None /\ parse_u32 (V "-1") = None /\ parse_u32 (V "4294967296") = None /\
  parse_u32 (V "4294967295") = Some 4294967295%N /\ parse_u32 (V "+") = None.
Proof. vm_compute. repeat split. Qed.

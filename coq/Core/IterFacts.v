(* Core/IterFacts.v — proofs for C19: the iterator/string/option helpers equal their plain definitions. *)
From Coq Require Import List ZArith NArith Bool Lia Arith.
Import ListNotations.
From RV Require Import Base.Str Core.Iter.
Local Open Scope Z_scope.

Lemma as_usize_small z : 0 <= z < two64 -> as_usize z = z.
Proof. intros H. unfold as_usize. apply Z.mod_small. exact H. Qed.

Lemma as_usize_neg z : - two64 <= z < 0 -> as_usize z = z + two64.
Proof.
  intros H. unfold as_usize. symmetry. apply Z.mod_unique with (q := -1); [left|]; unfold two64 in *; lia.
Qed.

Definition len_ok {A} (l : list A) : Prop := zlen l <= isize_max.

(* ---- drop ---- *)
Lemma drop_is_spec {A} n (l : list A) : in_isize n -> drop n l = drop_spec n l.
Proof.
  unfold in_isize, isize_min, isize_max. intros Hn. unfold drop, drop_spec.
  destruct (0 <? n) eqn:E1.
  - apply Z.ltb_lt in E1. rewrite as_usize_small by (unfold two64; lia).
    assert (E2 : (n <? 0) = false) by (apply Z.ltb_ge; lia). rewrite E2.
    unfold nth_front. replace (n - 1 + 1) with n by lia.
    destruct (zlen l <=? n - 1) eqn:E3, (zlen l <=? n) eqn:E4; try reflexivity.
    + apply Z.leb_le in E3. apply Z.leb_gt in E4. lia.
    + apply Z.leb_gt in E3. apply Z.leb_le in E4. assert (zlen l = n) by lia.
      unfold zlen in *. rewrite skipn_all2 by lia. reflexivity.
  - destruct (n <? 0) eqn:E2; [|reflexivity]. apply Z.ltb_lt in E2.
    unfold nth_back. rewrite Z.abs_neq by lia. replace (- n - 1 + 1) with (- n) by lia.
    destruct (zlen l <=? - n - 1) eqn:E3, (zlen l <=? - n) eqn:E4; try reflexivity.
    + apply Z.leb_le in E3. apply Z.leb_gt in E4. lia.
    + apply Z.leb_gt in E3. apply Z.leb_le in E4. assert (zlen l = - n) by lia.
      unfold zlen in *. replace (length l - Z.to_nat (- n))%nat with 0%nat by lia. reflexivity.
Qed.

(* drop(n) removes the first n items for n > 0 and the last |n| for n < 0 *)
Lemma drop_spec_pos {A} n (l : list A) : 0 < n -> drop_spec n l = skipn (Z.to_nat n) l.
Proof.
  intros H. unfold drop_spec. assert (E : (0 <? n) = true) by (apply Z.ltb_lt; lia). rewrite E.
  destruct (zlen l <=? n) eqn:E2; [|reflexivity]. apply Z.leb_le in E2. unfold zlen in E2.
  rewrite skipn_all2 by lia. reflexivity.
Qed.

Lemma drop_spec_neg {A} n (l : list A) : n < 0 -> drop_spec n l = firstn (length l - Z.to_nat (- n)) l.
Proof.
  intros H. unfold drop_spec. assert (E : (0 <? n) = false) by (apply Z.ltb_ge; lia). rewrite E.
  assert (E1 : (n <? 0) = true) by (apply Z.ltb_lt; lia). rewrite E1.
  destruct (zlen l <=? - n) eqn:E2; [|reflexivity]. apply Z.leb_le in E2. unfold zlen in E2.
  replace (length l - Z.to_nat (- n))%nat with 0%nat by lia. reflexivity.
Qed.

Lemma drop_spec_zero {A} (l : list A) : drop_spec 0 l = l.
Proof. reflexivity. Qed.

(* ---- slice ---- *)
Lemma nth_front_eq {A} k (l : list A) : 0 <= k -> nth_front k l = skipn (Z.to_nat (k + 1)) l.
Proof.
  intros H. unfold nth_front. destruct (zlen l <=? k) eqn:E; [|reflexivity].
  apply Z.leb_le in E. unfold zlen in E. rewrite skipn_all2 by lia. reflexivity.
Qed.

Lemma nth_back_eq {A} k (l : list A) : 0 <= k -> nth_back k l = firstn (length l - Z.to_nat (k + 1)) l.
Proof.
  intros H. unfold nth_back. destruct (zlen l <=? k) eqn:E; [|reflexivity].
  apply Z.leb_le in E. unfold zlen in E. replace (length l - Z.to_nat (k + 1))%nat with 0%nat by lia. reflexivity.
Qed.

Lemma firstn_min {A} n (l : list A) : firstn n l = firstn (Nat.min n (length l)) l.
Proof. rewrite <- (firstn_all l) at 1. rewrite firstn_firstn. reflexivity. Qed.

Lemma firstn_eq_min {A} n1 n2 (l : list A) :
  Nat.min n1 (length l) = Nat.min n2 (length l) -> firstn n1 l = firstn n2 l.
Proof. intros H. rewrite (firstn_min n1), (firstn_min n2), H. reflexivity. Qed.

Lemma slice_is_spec {A} left right (xs : list A) :
  len_ok xs -> in_isize left -> in_isize right -> - zlen xs <= left ->
  slice left right xs = slice_spec left right xs.
Proof.
  unfold len_ok, in_isize, isize_min, isize_max. intros Hlen Hl Hr Hlo.
  unfold slice, slice_spec. set (len := zlen xs) in *.
  assert (Hlen0 : 0 <= len) by (unfold len, zlen; lia).
  assert (Hlenx : len = Z.of_nat (length xs)) by reflexivity.
  set (lo := if left <? 0 then len + left else left).
  assert (Hlo_range : 0 <= lo <= isize_max) by (unfold lo, isize_max; destruct (Z.ltb_spec left 0); lia).
  assert (El : (if left <? 0 then as_usize (len + left) else as_usize left) = lo).
  { unfold lo. destruct (Z.ltb_spec left 0); apply as_usize_small; unfold two64; lia. }
  rewrite El. clear El. unfold isize_max in Hlo_range.
  (* after the left trim: skipn lo *)
  assert (Hys : (if 0 <? lo then nth_front (lo - 1) xs else xs) = skipn (Z.to_nat lo) xs).
  { destruct (Z.ltb_spec 0 lo).
    - rewrite nth_front_eq by lia. f_equal. lia.
    - replace lo with 0 by lia. reflexivity. }
  rewrite Hys. clear Hys. set (ys := skipn (Z.to_nat lo) xs).
  assert (Hylen : length ys = (length xs - Z.to_nat lo)%nat) by (unfold ys; apply skipn_length).
  set (hi := if right <? 0 then len + right else Z.min right (len - 1)).
  (* the amount trimmed on the right *)
  set (r := if (0 <=? right) && (right <? len) then as_usize (len - 1 - right)
            else if (right <? 0) && (Z.abs right <=? len) then Z.abs right - 1
            else if right <? 0 then len else 0).
  assert (Hr0 : 0 <= r /\ (r = if hi <? 0 then len else len - 1 - hi)).
  { unfold r, hi. destruct (Z.leb_spec 0 right); cbn [andb].
    - destruct (Z.ltb_spec right len); cbn [andb].
      + rewrite as_usize_small by (unfold two64; lia).
        destruct (Z.ltb_spec right 0); [lia|]. destruct (Z.ltb_spec (Z.min right (len - 1)) 0); lia.
      + destruct (Z.ltb_spec right 0); [lia|]. cbn [andb]. destruct (Z.ltb_spec (Z.min right (len - 1)) 0); lia.
    - destruct (Z.ltb_spec right len); cbn [andb]; destruct (Z.ltb_spec right 0); try lia; cbn [andb];
        destruct (Z.leb_spec (Z.abs right) len); destruct (Z.ltb_spec (len + right) 0); lia. }
  destruct Hr0 as [Hr0 Hr1]. clearbody r.
  assert (Hzs : (if 0 <? r then nth_back (r - 1) ys else ys) = firstn (length ys - Z.to_nat r) ys).
  { destruct (Z.ltb_spec 0 r).
    - rewrite nth_back_eq by lia. f_equal. lia.
    - replace r with 0 by lia. cbn. rewrite Nat.sub_0_r, firstn_all. reflexivity. }
  rewrite Hzs. clear Hzs.
  transitivity (firstn (if (lo <=? hi) && (lo <? len) && (0 <=? hi) then Z.to_nat (hi + 1 - lo) else 0) ys).
  2:{ destruct ((lo <=? hi) && (lo <? len) && (0 <=? hi)); reflexivity. }
  apply firstn_eq_min. rewrite Hylen.
  assert (Hhi : hi <= len - 1) by (unfold hi; destruct (Z.ltb_spec right 0); lia).
  destruct (Z.leb_spec lo hi); destruct (Z.ltb_spec lo len); destruct (Z.leb_spec 0 hi); cbn [andb];
    destruct (Z.ltb_spec hi 0); lia.
Qed.

(* the two degenerate cases of the statement *)
Lemma slice_spec_empty {A} left right (xs : list A) :
  let len := zlen xs in
  let lo := if left <? 0 then len + left else left in
  let hi := if right <? 0 then len + right else Z.min right (len - 1) in
  (hi < lo \/ len <= lo \/ hi < 0) -> slice_spec left right xs = [].
Proof.
  intros len lo hi H. unfold slice_spec. fold len. fold lo. fold hi.
  destruct (Z.leb_spec lo hi); destruct (Z.ltb_spec lo len); destruct (Z.leb_spec 0 hi); cbn [andb]; try reflexivity. lia.
Qed.

(* ---- the simple accessors against list semantics ---- *)
Lemma it_first_spec {A} (l : list A) : it_first l = hd_error l.
Proof. destruct l; reflexivity. Qed.
Lemma it_first_result_spec {A} (l : list A) :
  it_first_result l = match hd_error l with Some x => inl x | None => inr ItemNotFound end.
Proof. destruct l; reflexivity. Qed.
Lemma it_last_result_spec {A} (l : list A) :
  it_last_result l = match l with [] => inr ItemNotFound | x :: t => inl (List.last t x) end.
Proof.
  unfold it_last_result. destruct l as [|x t]; [reflexivity|].
  destruct (@exists_last _ (x :: t) ltac:(discriminate)) as (l' & y & E). rewrite E, rev_app_distr. cbn.
  f_equal. destruct l' as [|z l']; cbn in E.
  - injection E as -> ->. reflexivity.
  - injection E as -> ->. rewrite last_last. reflexivity.
Qed.
Lemma it_single_spec {A} (l : list A) :
  it_single l = match length l with 0%nat => inr ItemNotFound | 1%nat => match l with x :: _ => inl x | [] => inr ItemNotFound end
                | _ => inr MultipleItemsFound end.
Proof. destruct l as [|x [|y t]]; reflexivity. Qed.
Lemma it_some_spec {A} (l : list A) : it_some l = negb (Nat.eqb (length l) 0).
Proof. destruct l; reflexivity. Qed.
Lemma it_consume_spec {A} (l : list A) : it_consume l = [].
Proof. reflexivity. Qed.

(* ---- strings ---- *)
Local Close Scope Z_scope.
Lemma str_size_is_length s : str_size s = length s.
Proof. reflexivity. Qed.

(* to_bool is false exactly for "", "0" and any casing of "false" (ASCII case mapping) *)
Lemma str_to_bool_false_iff s :
  str_to_bool s = false <-> s = [] \/ map ascii_lower s = s_false \/ s = s_zero.
Proof.
  unfold str_to_bool. rewrite negb_false_iff, !orb_true_iff, !str_eqb_eq. split.
  - intros [[H|H]|H].
    + left. destruct s; [reflexivity | discriminate].
    + right. left. exact H.
    + right. right. destruct s as [|c [|d s]]; try discriminate. unfold s_zero in *. injection H as H.
      f_equal. unfold ascii_lower in H. destruct ((65 <=? c)%N && (c <=? 90)%N) eqn:E; [|exact H].
      apply andb_true_iff in E as [E1 E2]. apply N.leb_le in E1, E2. lia.
  - intros [->|[H| ->]]; [left; left; reflexivity | left; right; exact H | right; reflexivity].
Qed.

Lemma str_trim_suffix_once s suffix :
  (exists t, s = t ++ suffix /\ str_trim_suffix s suffix = t) \/
  ((forall t, s <> t ++ suffix) /\ str_trim_suffix s suffix = s).
Proof.
  unfold str_trim_suffix. destruct (ends_with s suffix) eqn:E.
  - left. apply ends_with_iff in E as [t ->]. exists t. split; [reflexivity|].
    rewrite app_length. replace (length t + length suffix - length suffix) with (length t) by lia.
    rewrite firstn_app, firstn_all, Nat.sub_diag. simpl. apply app_nil_r.
  - right. split; [|reflexivity]. intros t Ht.
    assert (ends_with s suffix = true) by (apply ends_with_iff; exists t; exact Ht). congruence.
Qed.

(* ---- Option::has is equality with the contained value ---- *)
Lemma opt_has_spec {A} (eqb : A -> A -> bool) (Heq : forall a b, eqb a b = true <-> a = b) o x :
  opt_has eqb o x = true <-> o = Some x.
Proof.
  destruct o as [y|]; simpl; [|split; discriminate]. rewrite Heq. split; [intros ->; reflexivity | intros H; injection H as ->; reflexivity].
Qed.

(* ---- take_while_p yields the longest prefix satisfying the predicate; the first failing item is
   left unconsumed ---- *)
Lemma take_while_p_longest {A} (p : A -> bool) l :
  let '(t, r) := take_while_p p l in
  l = t ++ r /\ forallb p t = true /\ match r with x :: _ => p x = false | [] => True end.
Proof.
  induction l as [|x l IH]; simpl; [repeat split|].
  destruct (p x) eqn:E.
  - destruct (take_while_p p l) as [t r]. destruct IH as (-> & H1 & H2). simpl. rewrite E, H1. repeat split. exact H2.
  - repeat split. exact E.
Qed.

(* Core/Defer.v — C19's defer clause.  rivia::defer wraps a closure in a value whose Drop runs it; a `defer!` in a
   scope is a local binding of such a value.  The model is Rust's scope semantics for locals (assumed: locals are
   dropped in reverse order of declaration when their scope is left — by falling off the end, by an early
   return / `?`, or by unwinding from a panic) with the closure run by the drop.  Programs are nested scopes of
   statements; the result is the log of actions in execution order and how the outermost scope was left.
   The tie: harness/src/core.rs runs the same programs with real `defer(..)` guards held on the call stack. *)
From Coq Require Import List Arith Lia.
Import ListNotations.

Inductive exit := Normal | Returned | Panicked.

Inductive stmt :=
  | SDefer (id : nat)           (* defer!(log(id)) *)
  | SLog (id : nat)             (* an ordinary action *)
  | SScope (body : stmts)       (* { ... } : an early exit inside propagates outwards *)
  | SReturn                     (* return / `?` on an Err *)
  | SPanic                      (* panic!() *)
with stmts := SNil | SCons (s : stmt) (rest : stmts).

(* run the rest of a scope: the log, and how the scope was left *)
Fixpoint run (ss : stmts) : list nat * exit :=
  match ss with
  | SNil => ([], Normal)
  | SCons s rest =>
      match s with
      | SDefer id => let '(l, e) := run rest in (l ++ [id], e)          (* the guard outlives the rest of its scope *)
      | SLog id => let '(l, e) := run rest in (id :: l, e)
      | SScope body =>
          let '(l1, e1) := run body in
          match e1 with Normal => let '(l2, e2) := run rest in (l1 ++ l2, e2) | _ => (l1, e1) end
      | SReturn => ([], Returned)
      | SPanic => ([], Panicked)
      end
  end.

(* the defers a run registers (reaches), in registration order *)
Fixpoint registered (ss : stmts) : list nat * exit :=
  match ss with
  | SNil => ([], Normal)
  | SCons s rest =>
      match s with
      | SDefer id => let '(l, e) := registered rest in (id :: l, e)
      | SLog _ => registered rest
      | SScope body =>
          let '(l1, e1) := registered body in
          match e1 with Normal => let '(l2, e2) := registered rest in (l1 ++ l2, e2) | _ => (l1, e1) end
      | SReturn => ([], Returned)
      | SPanic => ([], Panicked)
      end
  end.

Definition is_defer_id (ss : stmts) (x : nat) : Prop := In x (fst (registered ss)).

(* the ordinary actions a run performs *)
Fixpoint logged (ss : stmts) : list nat * exit :=
  match ss with
  | SNil => ([], Normal)
  | SCons s rest =>
      match s with
      | SDefer _ => logged rest
      | SLog id => let '(l, e) := logged rest in (id :: l, e)
      | SScope body =>
          let '(l1, e1) := logged body in
          match e1 with Normal => let '(l2, e2) := logged rest in (l1 ++ l2, e2) | _ => (l1, e1) end
      | SReturn => ([], Returned)
      | SPanic => ([], Panicked)
      end
  end.

Scheme stmt_mut := Induction for stmt Sort Prop
  with stmts_mut := Induction for stmts Sort Prop.

Lemma exits_agree ss : snd (registered ss) = snd (run ss) /\ snd (logged ss) = snd (run ss).
Proof.
  induction ss as [| | body IHb | | | | s IHs rest IHr] using stmts_mut
    with (P := fun s => match s with SScope b => snd (registered b) = snd (run b) /\ snd (logged b) = snd (run b) | _ => True end);
    try exact I; try (split; reflexivity).
  - exact IHb.
  - destruct s as [id|id|body| |]; cbn [run registered logged].
    + destruct IHr as [H1 H2]. destruct (run rest) as [l e], (registered rest) as [l1 e1], (logged rest) as [l2 e2]; cbn in *; split; congruence.
    + destruct IHr as [H1 H2]. destruct (run rest) as [l e], (registered rest) as [l1 e1], (logged rest) as [l2 e2]; cbn in *; split; congruence.
    + destruct IHs as [Hb1 Hb2], IHr as [H1 H2].
      destruct (run body) as [lb eb], (registered body) as [lb1 eb1], (logged body) as [lb2 eb2]; cbn in Hb1, Hb2; subst eb1 eb2.
      destruct eb; try (split; reflexivity).
      destruct (run rest) as [l e], (registered rest) as [l1 e1], (logged rest) as [l2 e2]; cbn in *; split; congruence.
    + split; reflexivity.
    + split; reflexivity.
Qed.

(* exactly once, on every exit path: the log is, as a multiset, the ordinary actions performed plus every defer
   that was registered — each as often as it was registered, nothing else, however the scopes were left *)
Theorem defer_exactly_once ss x :
  count_occ Nat.eq_dec (fst (run ss)) x = count_occ Nat.eq_dec (fst (registered ss)) x + count_occ Nat.eq_dec (fst (logged ss)) x.
Proof.
  induction ss as [| | body IHb | | | | s IHs rest IHr] using stmts_mut
    with (P := fun s => match s with
                        | SScope b => count_occ Nat.eq_dec (fst (run b)) x =
                                      count_occ Nat.eq_dec (fst (registered b)) x + count_occ Nat.eq_dec (fst (logged b)) x
                        | _ => True end);
    try exact I; try reflexivity.
  - exact IHb.
  - destruct s as [id|id|body| |]; cbn [run registered logged]; try reflexivity.
    + destruct (run rest) as [l e], (registered rest) as [l1 e1], (logged rest) as [l2 e2]; cbn [fst] in *.
      rewrite count_occ_app. cbn [count_occ]. destruct (Nat.eq_dec id x); lia.
    + destruct (run rest) as [l e], (registered rest) as [l1 e1], (logged rest) as [l2 e2]; cbn [fst] in *.
      cbn [count_occ]. destruct (Nat.eq_dec id x); lia.
    + destruct (exits_agree body) as [Hb1 Hb2].
      destruct (run body) as [lb eb], (registered body) as [lb1 eb1], (logged body) as [lb2 eb2]; cbn in Hb1, Hb2; subst eb1 eb2. cbn [fst] in IHs.
      destruct eb; cbn [fst]; try exact IHs.
      destruct (run rest) as [l e], (registered rest) as [l1 e1], (logged rest) as [l2 e2]; cbn [fst] in *.
      rewrite !count_occ_app. lia.
Qed.

(* LIFO: in a scope without inner scopes the ordinary actions come first, in order, then the registered defers in
   reverse order of registration — whether the scope ends normally, returns early or panics *)
Fixpoint flat (ss : stmts) : Prop :=
  match ss with SNil => True | SCons s rest => (match s with SScope _ => False | _ => True end) /\ flat rest end.

Theorem defer_lifo ss : flat ss -> fst (run ss) = fst (logged ss) ++ rev (fst (registered ss)).
Proof.
  induction ss as [| | body IHb | | | | s IHs rest IHr] using stmts_mut with (P := fun _ => True); try exact I; [reflexivity|].
  intros [Hs Hf]. destruct s as [id|id|body| |]; cbn [run registered logged]; try contradiction; try reflexivity.
  - specialize (IHr Hf). destruct (run rest) as [l e], (registered rest) as [l1 e1], (logged rest) as [l2 e2]; cbn [fst] in *.
    rewrite IHr. cbn [rev]. rewrite app_assoc. reflexivity.
  - specialize (IHr Hf). destruct (run rest) as [l e], (registered rest) as [l1 e1], (logged rest) as [l2 e2]; cbn [fst] in *.
    rewrite IHr. reflexivity.
Qed.

(* an inner scope's defers run when that scope is left, before anything that follows it *)
Theorem defer_scope_first body rest l1 : run body = (l1, Normal) ->
  fst (run (SCons (SScope body) rest)) = l1 ++ fst (run rest).
Proof. intros H. cbn [run]. rewrite H. destruct (run rest); reflexivity. Qed.

(* ... and when an inner scope is left early, the enclosing defers registered before it still run *)
Theorem defer_runs_on_early_exit id body l e : run body = (l, e) -> e <> Normal ->
  run (SCons (SDefer id) (SCons (SScope body) SNil)) = (l ++ [id], e).
Proof. intros H He. cbn [run]. rewrite H. destruct e; try congruence; reflexivity. Qed.

Example defer_example :
  run (SCons (SDefer 1) (SCons (SLog 10) (SCons (SScope (SCons (SDefer 2) (SCons (SLog 20) (SCons SPanic (SCons (SLog 99) SNil)))))
                                          (SCons (SLog 30) SNil)))) = ([10; 20; 2; 1], Panicked).
Proof. reflexivity. Qed.

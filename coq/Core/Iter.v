(* Core/Iter.v — mirrors of src/core/iter.rs (IteratorExt), core/string.rs (StringExt),
   core/option.rs (OptionExt::has) and core/peekable.rs (take_while_p), with their plain
   definitions.  A double-ended iterator over a finite sequence is the list of its remaining items;
   isize/usize values are Z with the `as usize` wrap written out. *)
From Coq Require Import List ZArith NArith Bool Lia Arith.
Import ListNotations.
From RV Require Import Base.Str.
Local Open Scope Z_scope.

Definition two64 : Z := 18446744073709551616.
Definition isize_min : Z := -9223372036854775808.
Definition isize_max : Z := 9223372036854775807.
Definition in_isize (z : Z) : Prop := isize_min <= z <= isize_max.

Definition as_usize (z : Z) : Z := z mod two64.

Definition zlen {A} (l : list A) : Z := Z.of_nat (length l).

(* Iterator::nth(k) consumes k+1 items from the front (all of them if there are fewer) *)
Definition nth_front {A} (k : Z) (l : list A) : list A :=
  if zlen l <=? k then [] else skipn (Z.to_nat (k + 1)) l.
(* (&mut it).rev().nth(k) consumes k+1 items from the back *)
Definition nth_back {A} (k : Z) (l : list A) : list A :=
  if zlen l <=? k then [] else firstn (length l - Z.to_nat (k + 1)) l.

(* IteratorExt::drop *)
Definition drop {A} (n : Z) (l : list A) : list A :=
  let l := if 0 <? n then nth_front (as_usize n - 1) l else l in
  if n <? 0 then nth_back (Z.abs n - 1) l else l.

(* plain definition *)
Definition drop_spec {A} (n : Z) (l : list A) : list A :=
  if 0 <? n then (if zlen l <=? n then [] else skipn (Z.to_nat n) l)
  else if n <? 0 then (if zlen l <=? - n then [] else firstn (length l - Z.to_nat (- n)) l)
  else l.

(* IteratorExt::slice (after its fix) *)
Definition slice {A} (left right : Z) (xs : list A) : list A :=
  let len := zlen xs in
  let l := as_usize left in
  let l := if left <? 0 then as_usize (len + left) else l in
  let xs := if 0 <? l then nth_front (l - 1) xs else xs in
  let r := 0 in
  let r := if (0 <=? right) && (right <? len) then as_usize (len - 1 - right)
           else if (right <? 0) && (Z.abs right <=? len) then Z.abs right - 1
           else if right <? 0 then len
           else r in
  if 0 <? r then nth_back (r - 1) xs else xs.

(* plain definition: the inclusive index range lo..=hi, negative indices counting from the end,
   the right bound clamped to the last index *)
Definition slice_spec {A} (left right : Z) (xs : list A) : list A :=
  let len := zlen xs in
  let lo := if left <? 0 then len + left else left in
  let hi := if right <? 0 then len + right else Z.min right (len - 1) in
  if (lo <=? hi) && (lo <? len) && (0 <=? hi) then firstn (Z.to_nat (hi + 1 - lo)) (skipn (Z.to_nat lo) xs) else [].

Inductive iter_err := ItemNotFound | MultipleItemsFound.

Definition it_first {A} (l : list A) : option A := match l with x :: _ => Some x | [] => None end.
Definition it_first_result {A} (l : list A) : A + iter_err :=
  match l with x :: _ => inl x | [] => inr ItemNotFound end.
Definition it_last_result {A} (l : list A) : A + iter_err :=
  match rev l with x :: _ => inl x | [] => inr ItemNotFound end.
Definition it_single {A} (l : list A) : A + iter_err :=
  match l with
  | [] => inr ItemNotFound
  | [x] => inl x
  | _ :: _ :: _ => inr MultipleItemsFound
  end.
Definition it_some {A} (l : list A) : bool := match l with [] => false | _ => true end.
Definition it_consume {A} (l : list A) : list A := [].

(* ---- StringExt ---- *)
Local Close Scope Z_scope.
Definition str_size (s : str) : nat := length s.

Definition s_false : str := [102; 97; 108; 115; 101]%N.
Definition s_zero : str := [48]%N.
(* to_bool: lower-case, then false for "", "false", "0" *)
Definition str_to_bool (s : str) : bool :=
  let x := map ascii_lower s in
  negb (match x with [] => true | _ => false end || str_eqb x s_false || str_eqb x s_zero).

Definition str_trim_suffix (s suffix : str) : str :=
  if ends_with s suffix then firstn (length s - length suffix) s else s.

(* ---- OptionExt::has ---- *)
Definition opt_has {A} (eqb : A -> A -> bool) (o : option A) (x : A) : bool :=
  match o with Some y => eqb x y | None => false end.

(* ---- PeekableExt::take_while_p: next_if(pred) until it fails; the failing item stays ---- *)
Fixpoint take_while_p {A} (p : A -> bool) (l : list A) : list A * list A :=
  match l with
  | x :: l' => if p x then let '(t, r) := take_while_p p l' in (x :: t, r) else ([], l)
  | [] => ([], [])
  end.

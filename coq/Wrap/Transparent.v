(* Wrap/Transparent.v — C13: the Vfs and VfsEntry enums are transparent wrappers.
   Wrap/Routes.v is regenerated from the source on every run: for every method of the two wrapper
   impls (and of `impl VirtualFileSystem for Stdfs`) and every enum arm it records the callee and the
   argument list as written.  Here: (1) every route is the identity route, every trait method is
   routed in both arms, and default trait methods are not overridden inconsistently — decided by
   computation over the finite generated table; (2) for an arbitrary backend semantics, calling
   through a wrapper whose routes are identities equals calling the backend — for every method,
   argument list and state, hence for every history. *)
From Coq Require Import List String Bool Arith.
Import ListNotations.
From RV Require Import Wrap.Routes.
Local Open Scope string_scope.

Fixpoint strs_eqb (a b : list string) : bool :=
  match a, b with
  | [], [] => true
  | x :: a', y :: b' => String.eqb x y && strs_eqb a' b'
  | _, _ => false
  end.

Lemma strs_eqb_eq a b : strs_eqb a b = true <-> a = b.
Proof.
  revert b; induction a as [|x a IH]; destruct b as [|y b]; simpl; split; try congruence; try discriminate.
  - intros H. apply andb_true_iff in H as [H1 H2]. apply String.eqb_eq in H1. apply IH in H2. congruence.
  - intros H. injection H as -> ->. apply andb_true_iff. split; [apply String.eqb_refl | apply IH; reflexivity].
Qed.

Fixpoint mem_str (x : string) (l : list string) : bool :=
  match l with [] => false | y :: l' => String.eqb x y || mem_str x l' end.

Fixpoint nodup_strs (l : list string) : bool :=
  match l with [] => true | x :: l' => negb (mem_str x l') && nodup_strs l' end.

(* the identity route: same method, same arguments in the same order, nothing appended except the
   idempotent re-wrap `.upcast()` after follow() *)
Definition route_is_identity (r : route) : bool :=
  String.eqb (r_callee r) (r_method r) && strs_eqb (r_args r) (r_params r) && nodup_strs (r_params r)
  && (strs_eqb (r_suffix r) [] || (strs_eqb (r_suffix r) ["upcast"] && String.eqb (r_method r) "follow")).

Definition arm_eqb (a b : arm) : bool :=
  match a, b with AStdfs, AStdfs | AMemfs, AMemfs | ASelf, ASelf => true | _, _ => false end.

Definition routed (rs : list route) (a : arm) (m : string) : bool :=
  existsb (fun r => String.eqb (r_method r) m && arm_eqb (r_arm r) a) rs.

Definition unique_routes (rs : list route) : bool :=
  forallb (fun r => Nat.eqb (List.length (filter (fun r' => String.eqb (r_method r') (r_method r) && arm_eqb (r_arm r') (r_arm r)) rs)) 1) rs.

(* every method of the trait is dispatched in both arms, exactly once, by an identity route *)
Definition wrapper_ok (rs : list route) (required : list string) : bool :=
  forallb route_is_identity rs && unique_routes rs &&
  forallb (fun m => routed rs AStdfs m && routed rs AMemfs m) required.

(* default trait methods: either not overridden anywhere (the default body then runs over routed
   primitives on both sides) or overridden by the wrapper with an identity route *)
Definition defaults_ok : bool :=
  forallb (fun m => (negb (mem_str m memfs_entry_impl) && negb (mem_str m stdfs_entry_impl))
                    || (routed entry_routes AStdfs m && routed entry_routes AMemfs m)) entry_trait_default
  && forallb (fun m => routed vfs_routes AStdfs m && routed vfs_routes AMemfs m) vfs_trait_default.

Lemma vfs_wrapper_ok : wrapper_ok vfs_routes vfs_trait_required = true.
Proof. vm_compute. reflexivity. Qed.

Lemma entry_wrapper_ok : wrapper_ok entry_routes entry_trait_required = true.
Proof. vm_compute. reflexivity. Qed.

Lemma stdfs_impl_ok :
  forallb route_is_identity stdfs_routes = true /\ unique_routes stdfs_routes = true.
Proof. vm_compute. split; reflexivity. Qed.

Lemma defaults_commute : defaults_ok = true.
Proof. vm_compute. reflexivity. Qed.

(* ---- abstract semantics ---- *)
Section Semantics.
  Variables (state value : Type).
  (* an arbitrary backend: what calling method m with the given arguments does to a state *)
  Variable sem : string -> list value -> state -> state * value.

  Fixpoint assoc (ks : list string) (vs : list value) (k : string) : option value :=
    match ks, vs with
    | k' :: ks', v :: vs' => if String.eqb k k' then Some v else assoc ks' vs' k
    | _, _ => None
    end.

  (* pick the callee's arguments, by name, from the wrapper method's parameters *)
  Fixpoint select (ks : list string) (vs : list value) (names : list string) : option (list value) :=
    match names with
    | [] => Some []
    | n :: names' => match assoc ks vs n, select ks vs names' with
                     | Some v, Some r => Some (v :: r)
                     | _, _ => None
                     end
    end.

  Definition find_route (rs : list route) (a : arm) (m : string) : option route :=
    find (fun r => String.eqb (r_method r) m && arm_eqb (r_arm r) a) rs.

  (* calling method m through the wrapper holding a backend in arm a: follow the route as written.
     Suffixes are idempotent re-wraps of an already wrapped result: the identity on values. *)
  Definition wrap_sem (rs : list route) (a : arm) (m : string) (args : list value) (st : state) : option (state * value) :=
    match find_route rs a m with
    | None => None
    | Some r => match select (r_params r) args (r_args r) with
                | Some args' => Some (sem (r_callee r) args' st)
                | None => None
                end
    end.

  Lemma assoc_head k ks v vs : assoc (k :: ks) (v :: vs) k = Some v.
  Proof. cbn. rewrite String.eqb_refl. reflexivity. Qed.

  Lemma select_same ks : nodup_strs ks = true -> forall vs, List.length vs = List.length ks -> select ks vs ks = Some vs.
  Proof.
    induction ks as [|k ks IH]; intros Hnd vs Hl.
    - destruct vs; [reflexivity | discriminate].
    - destruct vs as [|v vs]; [discriminate|]. cbn [nodup_strs] in Hnd. apply andb_true_iff in Hnd as [Hk Hnd].
      cbn [select]. rewrite assoc_head.
      assert (Hsel : forall names, (forall n, In n names -> mem_str n ks = true -> True) ->
                mem_str k names = false -> select (k :: ks) (v :: vs) names = select ks vs names).
      { induction names as [|n names IHn]; intros _ Hm; [reflexivity|]. cbn [mem_str] in Hm.
        apply orb_false_iff in Hm as [Hkn Hm]. cbn [select assoc]. rewrite String.eqb_sym, Hkn.
        rewrite IHn by (auto). reflexivity. }
      rewrite Hsel; [|auto|apply negb_true_iff; exact Hk].
      rewrite IH by (try assumption; cbn in Hl; congruence). reflexivity.
  Qed.

  (* T: an identity route calls exactly the backend method with exactly the arguments *)
  Theorem wrapper_transparent rs a m args st r :
    find_route rs a m = Some r -> route_is_identity r = true -> List.length args = List.length (r_params r) ->
    wrap_sem rs a m args st = Some (sem m args st).
  Proof.
    intros Hf Hid Hl. unfold wrap_sem. rewrite Hf.
    unfold route_is_identity in Hid. apply andb_true_iff in Hid as [Hid _]. apply andb_true_iff in Hid as [Hid Hnd].
    apply andb_true_iff in Hid as [Hc Ha]. apply String.eqb_eq in Hc. apply strs_eqb_eq in Ha.
    rewrite Ha, select_same by assumption. rewrite Hc.
    assert (Hm : r_method r = m).
    { unfold find_route in Hf. apply find_some in Hf as [_ Hf]. apply andb_true_iff in Hf as [Hf _]. apply String.eqb_eq. exact Hf. }
    rewrite Hm. reflexivity.
  Qed.

  (* lifted to histories: running any sequence of calls through the wrapper is running it directly *)
  Fixpoint run_direct (h : list (string * list value)) (st : state) : state * list value :=
    match h with
    | [] => (st, [])
    | (m, args) :: h' => let '(st', v) := sem m args st in let '(st'', vs) := run_direct h' st' in (st'', v :: vs)
    end.

  Fixpoint run_wrapped (rs : list route) (a : arm) (h : list (string * list value)) (st : state) : option (state * list value) :=
    match h with
    | [] => Some (st, [])
    | (m, args) :: h' =>
        match wrap_sem rs a m args st with
        | None => None
        | Some (st', v) => match run_wrapped rs a h' st' with
                           | Some (st'', vs) => Some (st'', v :: vs)
                           | None => None
                           end
        end
    end.

  Definition call_ok (rs : list route) (a : arm) (c : string * list value) : Prop :=
    exists r, find_route rs a (fst c) = Some r /\ route_is_identity r = true /\ List.length (snd c) = List.length (r_params r).

  Theorem history_transparent rs a h : Forall (call_ok rs a) h -> forall st,
    run_wrapped rs a h st = Some (run_direct h st).
  Proof.
    induction 1 as [|[m args] h (r & Hf & Hid & Hl) _ IH]; intros st; [reflexivity|].
    cbn [run_wrapped run_direct]. cbn [fst snd] in *.
    rewrite (wrapper_transparent rs a m args st r Hf Hid Hl).
    destruct (sem m args st) as [st' v]. rewrite IH. destruct (run_direct h st'); reflexivity.
  Qed.
End Semantics.

(* every method of the generated tables satisfies the premises of wrapper_transparent *)
Lemma find_route_identity rs required : wrapper_ok rs required = true ->
  forall a m r, find_route rs a m = Some r -> route_is_identity r = true.
Proof.
  intros H a m r Hf. unfold wrapper_ok in H. apply andb_true_iff in H as [H _]. apply andb_true_iff in H as [H _].
  rewrite forallb_forall in H. apply H. unfold find_route in Hf. apply find_some in Hf as [Hin _]. exact Hin.
Qed.

Lemma required_routed rs required : wrapper_ok rs required = true ->
  forall m, In m required -> (exists r, find_route rs AStdfs m = Some r) /\ (exists r, find_route rs AMemfs m = Some r).
Proof.
  intros H m Hm. unfold wrapper_ok in H. apply andb_true_iff in H as [_ H]. rewrite forallb_forall in H.
  specialize (H m Hm). apply andb_true_iff in H as [H1 H2]. unfold routed in *.
  split; [apply existsb_exists in H1 as (r & Hin & Hr) | apply existsb_exists in H2 as (r & Hin & Hr)];
    unfold find_route; match goal with |- exists _, find ?f ?l = _ => destruct (find f l) eqn:E; [eexists; reflexivity|] end;
    exfalso; apply (find_none _ _ E r Hin) in Hr || (rewrite (find_none _ _ E r Hin) in Hr; discriminate).
Qed.

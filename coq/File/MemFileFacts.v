(* File/MemFileFacts.v — proofs for C07. *)
From Coq Require Import List ZArith NArith Bool Lia Arith.
Import ListNotations.
From RV Require Import Base.Str File.MemFile.
Local Open Scope Z_scope.

Definition sim (f : memfile) (c : cursor) : Prop :=
  mf_pos f = c_pos c /\ mf_data f = c_data c /\ 0 <= mf_pos f <= u64_max.

Definition data_ok (d : list N) : Prop := dlen d <= i64_max.

Lemma read_sim f c n : sim f c -> data_ok (mf_data f) ->
  exists f', mf_read f n = Done (f', snd (c_read c n)) /\ sim f' (fst (c_read c n)).
Proof.
  intros (Hp & Hd & Hr) Hok. unfold data_ok, i64_max in Hok. unfold u64_max in Hr.
  unfold mf_read, c_read, c_remaining, mf_len. rewrite <- Hp, <- Hd.
  set (d := mf_data f) in *. set (p := mf_pos f) in *.
  assert (Hd0 : 0 <= dlen d) by (unfold dlen; lia).
  set (pos := Z.min p (dlen d)). set (len := Z.min (Z.of_nat n) (Z.max 0 (dlen d - p))).
  assert (Hlen : 0 <= len /\ pos + len <= dlen d) by (unfold len, pos; lia).
  destruct (Z.ltb_spec (dlen d) (pos + len)); [lia|].
  destruct (Z.ltb_spec u64_max (p + len)); [unfold u64_max in *; lia|].
  assert (Hout : firstn n (skipn (Z.to_nat pos) d) = firstn (Z.to_nat len) (skipn (Z.to_nat pos) d)).
  { assert (Hsk : length (skipn (Z.to_nat pos) d) = Z.to_nat (dlen d - pos)) by (rewrite skipn_length; unfold dlen; lia).
    destruct (Z.le_gt_cases (Z.of_nat n) (Z.max 0 (dlen d - p))).
    - f_equal. unfold len. lia.
    - rewrite firstn_all2 by lia. rewrite firstn_all2; [reflexivity|]. unfold len, pos in *. lia. }
  eexists. split.
  - cbn [snd]. rewrite Hout. reflexivity.
  - cbn [fst]. unfold sim. cbn [mf_pos c_pos mf_data c_data]. rewrite Hout.
    assert (Hl : dlen (firstn (Z.to_nat len) (skipn (Z.to_nat pos) d)) = len).
    { unfold dlen. rewrite firstn_length, skipn_length. unfold dlen in *. lia. }
    rewrite Hl. unfold u64_max in *. repeat split; try lia.
Qed.

Lemma seek_sim f c w : sim f c -> data_ok (mf_data f) -> rop_ok (RSeek w) ->
  snd (mf_seek f w) = snd (c_seek c w) /\ sim (fst (mf_seek f w)) (fst (c_seek c w)).
Proof.
  intros (Hp & Hd & Hr) Hok Hw. unfold sim, mf_seek, c_seek, checked_add_signed. rewrite <- Hp, <- Hd.
  destruct w as [o|o|o]; cbn [rop_ok] in Hw; unfold u64_max, i64_min, i64_max, data_ok in *.
  - cbn [fst snd mf_pos c_pos mf_data c_data]. repeat split; lia.
  - destruct (Z.leb_spec 0 (mf_pos f + o)); destruct (Z.leb_spec (mf_pos f + o) 18446744073709551615); cbn [andb];
      destruct (Z.ltb_spec (mf_pos f + o) 0); destruct (Z.ltb_spec 18446744073709551615 (mf_pos f + o)); cbn [orb fst snd mf_pos c_pos mf_data c_data]; try lia;
      repeat split; try lia; try assumption.
  - destruct (Z.leb_spec 0 (dlen (mf_data f) + o)); destruct (Z.leb_spec (dlen (mf_data f) + o) 18446744073709551615); cbn [andb];
      destruct (Z.ltb_spec (dlen (mf_data f) + o) 0); destruct (Z.ltb_spec 18446744073709551615 (dlen (mf_data f) + o)); cbn [orb fst snd mf_pos c_pos mf_data c_data]; try lia;
      repeat split; try lia; try assumption.
Qed.

Lemma mf_data_step f o f' r : mf_step f o = Done (f', r) -> mf_data f' = mf_data f.
Proof.
  destruct o as [n|w]; cbn [mf_step].
  - unfold mf_read. destruct (_ <? _); [discriminate|]. destruct (_ <? _); [discriminate|]. intros H. inversion H; subst. reflexivity.
  - intros H. inversion H as [H1]. replace f' with (fst (mf_seek f w)) by (rewrite H1; reflexivity).
    unfold mf_seek. destruct w; cbn; try destruct (checked_add_signed _ _); reflexivity.
Qed.

(* T1: any sequence of reads and seeks on a handle behaves exactly like std::io::Cursor over the
   same bytes — same results, same final position — and never panics *)
Lemma run_sim ops : forall f c, sim f c -> data_ok (mf_data f) -> Forall rop_ok ops ->
  exists f', mf_run f ops = Done (f', snd (c_run c ops)) /\ sim f' (fst (c_run c ops)).
Proof.
  induction ops as [|o ops IH]; intros f c Hs Hok Hops; cbn [mf_run c_run].
  - exists f. split; [reflexivity | exact Hs].
  - inversion Hops as [|? ? Ho Hops']; subst.
    assert (Hstep : exists f1, mf_step f o = Done (f1, snd (c_step c o)) /\ sim f1 (fst (c_step c o))).
    { destruct o as [n|w]; cbn [mf_step c_step].
      - apply read_sim; assumption.
      - destruct (seek_sim f c w Hs Hok Ho) as [H1 H2]. exists (fst (mf_seek f w)). split; [|exact H2].
        rewrite <- H1. destruct (mf_seek f w); reflexivity. }
    destruct Hstep as (f1 & E1 & Hs1). rewrite E1.
    assert (Hok1 : data_ok (mf_data f1)) by (rewrite (mf_data_step _ _ _ _ E1); exact Hok).
    destruct (IH f1 (fst (c_step c o)) Hs1 Hok1 Hops') as (f2 & E2 & Hs2). rewrite E2.
    destruct (c_step c o) as [c1 r1]. cbn [fst snd] in *. destruct (c_run c1 ops) as [c2 rs]. cbn [fst snd] in *.
    exists f2. split; [reflexivity | exact Hs2].
Qed.

Theorem read_handle_sim data ops : data_ok data -> Forall rop_ok ops ->
  exists f', mf_run {| mf_pos := 0; mf_data := data |} ops = Done (f', snd (c_run {| c_pos := 0; c_data := data |} ops))
             /\ mf_pos f' = c_pos (fst (c_run {| c_pos := 0; c_data := data |} ops)).
Proof.
  intros Hd Hops.
  destruct (run_sim ops {| mf_pos := 0; mf_data := data |} {| c_pos := 0; c_data := data |}) as (f' & E & Hs & _);
    [repeat split; cbn; unfold u64_max; lia | exact Hd | exact Hops |].
  exists f'. split; assumption.
Qed.

Corollary read_handle_no_panic data ops : data_ok data -> Forall rop_ok ops ->
  mf_run {| mf_pos := 0; mf_data := data |} ops <> Panic.
Proof. intros Hd Hops. destruct (read_handle_sim data ops Hd Hops) as (f' & E & _). rewrite E. discriminate. Qed.

(* T2: reads at or beyond the end return 0 bytes *)
Lemma cursor_read_at_end c n : dlen (c_data c) <= c_pos c -> snd (c_read c n) = RBytes [].
Proof.
  intros H. unfold c_read, c_remaining. cbn [snd]. rewrite Z.min_r by lia. unfold dlen.
  rewrite Nat2Z.id, skipn_all. destruct n; reflexivity.
Qed.

(* T3: seeking before the start is an error that leaves the position unchanged *)
Lemma cursor_seek_before_start c w :
  match w with
  | SeekStart _ => True
  | SeekCurrent o => c_pos c + o < 0 -> c_seek c w = (c, RInvalidInput)
  | SeekEnd o => dlen (c_data c) + o < 0 -> c_seek c w = (c, RInvalidInput)
  end.
Proof.
  destruct w as [o|o|o]; [exact I| |]; intros H; unfold c_seek;
    match goal with |- context [?a <? 0] => destruct (Z.ltb_spec a 0); [reflexivity | lia] end.
Qed.

(* ---- write / append handles ---- *)
(* invariant of a handle/store pair: a write handle's buffer is everything written so far; an append
   handle's buffer is the old content plus everything written, of which a prefix is already stored *)
Definition wh_inv (old : list N) (h : whandle) (store : option (list N)) (w : list N) : Prop :=
  match wh_append h with
  | None => wh_data h = w
  | Some synced =>
      wh_data h = old ++ w /\
      match store with
      | Some cur => exists s t, w = s ++ t /\ cur = old ++ s /\ synced = length (old ++ s)
      | None => True
      end
  end.

Lemma wh_sync_inv old h store w : wh_inv old h store w ->
  let '(h', s', _) := wh_sync h store in
  wh_inv old h' s' w /\
  s' = match store with
       | None => None
       | Some _ => Some (match wh_append h with None => w | Some _ => old ++ w end)
       end.
Proof.
  unfold wh_inv, wh_sync. destruct store as [cur|]; destruct (wh_append h) as [synced|] eqn:Ea; cbn [wh_append wh_data].
  - intros (Hd & s & t & Hw & Hc & Hs). try rewrite Ea. cbn [wh_append wh_data]. split.
    + split; [exact Hd|]. exists w, []. rewrite app_nil_r, Hd, Hs, Hc, Hw. repeat split.
      rewrite !app_assoc, skipn_app, skipn_all, Nat.sub_diag. reflexivity.
    + rewrite Hd, Hs, Hc, Hw, !app_assoc, skipn_app, skipn_all, Nat.sub_diag. cbn [skipn app].
      rewrite <- !app_assoc. reflexivity.
  - intros Hd. try rewrite Ea. split; [exact Hd | rewrite Hd; reflexivity].
  - intros (Hd & _). try rewrite Ea. split; [split; [exact Hd | exact I] | reflexivity].
  - intros Hd. try rewrite Ea. split; [exact Hd | reflexivity].
Qed.

Lemma wh_write_inv old h store w chunk : wh_inv old h store w ->
  wh_inv old {| wh_data := wh_data h ++ chunk; wh_append := wh_append h |} store (w ++ chunk).
Proof.
  unfold wh_inv. cbn [wh_append wh_data]. destruct (wh_append h) as [synced|].
  - intros (Hd & Hs). split; [rewrite Hd, app_assoc; reflexivity|]. destruct store as [cur|]; [|exact I].
    destruct Hs as (s & t & Hw & Hc & Hl). exists s, (t ++ chunk). rewrite Hw, app_assoc. repeat split; assumption.
  - intros ->. reflexivity.
Qed.

Lemma wh_run_inv ops : forall old h store w, wh_inv old h store w ->
  wh_run h store ops = match store with
                       | None => None
                       | Some _ => Some (match wh_append h with None => w ++ written ops | Some _ => old ++ w ++ written ops end)
                       end.
Proof.
  induction ops as [|o ops IH]; intros old h store w Hinv; cbn [wh_run written flat_map].
  - pose proof (wh_sync_inv old h store w Hinv) as H. destruct (wh_sync h store) as [[h' s'] r]. cbn [fst snd].
    destruct H as [_ ->]. rewrite app_nil_r. reflexivity.
  - destruct o as [chunk|]; cbn [wh_step].
    + rewrite (IH old _ store (w ++ chunk) (wh_write_inv old h store w chunk Hinv)). cbn [wh_append].
      rewrite <- !app_assoc. reflexivity.
    + pose proof (wh_sync_inv old h store w Hinv) as H. destruct (wh_sync h store) as [[h' s'] r] eqn:Es.
      destruct H as [Hinv' Hs']. rewrite (IH old h' s' w Hinv').
      assert (Ha : wh_append h' = None <-> wh_append h = None).
      { unfold wh_sync in Es. destruct store; destruct (wh_append h) eqn:E; inversion Es; subst; cbn; rewrite ?E; split; congruence. }
      subst s'. destruct store; [|reflexivity].
      destruct (wh_append h) eqn:E1, (wh_append h') eqn:E2; try reflexivity.
      * exfalso. destruct Ha as [Ha _]. specialize (Ha eq_refl). discriminate.
      * exfalso. destruct Ha as [_ Ha]. specialize (Ha eq_refl). discriminate.
Qed.

(* T4: dropping the handle after any sequence of writes and flushes persists exactly the bytes
   written through it (after the previous content, for an append handle) *)
Theorem write_handle_drop_persists old ops : wh_run open_write (Some old) ops = Some (written ops).
Proof. rewrite (wh_run_inv ops old open_write (Some old) []); [reflexivity | reflexivity]. Qed.

Theorem append_handle_drop_persists old ops : wh_run (open_append old) (Some old) ops = Some (old ++ written ops).
Proof.
  rewrite (wh_run_inv ops old (open_append old) (Some old) []); [reflexivity|].
  unfold wh_inv, open_append. cbn [wh_append wh_data]. split; [symmetry; apply app_nil_r|].
  exists [], []. repeat split; rewrite ?app_nil_r; reflexivity.
Qed.

(* T5: at each flush everything written so far is visible *)
Fixpoint wh_after (h : whandle) (store : option (list N)) (ops : list wop) : whandle * option (list N) :=
  match ops with
  | [] => (h, store)
  | o :: ops' => let '(h', s', _) := wh_step h store o in wh_after h' s' ops'
  end.

Lemma wh_after_inv ops : forall old h store w, wh_inv old h store w ->
  wh_inv old (fst (wh_after h store ops)) (snd (wh_after h store ops)) (w ++ written ops) /\
  (store <> None -> snd (wh_after h store ops) <> None) /\
  (wh_append (fst (wh_after h store ops)) = None <-> wh_append h = None).
Proof.
  induction ops as [|o ops IH]; intros old h store w Hinv; cbn [wh_after written flat_map].
  - rewrite app_nil_r. repeat split; auto.
  - destruct o as [chunk|]; cbn [wh_step].
    + destruct (IH old _ store (w ++ chunk) (wh_write_inv old h store w chunk Hinv)) as (H1 & H2 & H3).
      rewrite <- app_assoc in H1. repeat split; auto; apply H3.
    + pose proof (wh_sync_inv old h store w Hinv) as H. destruct (wh_sync h store) as [[h' s'] r] eqn:Es.
      destruct H as [Hinv' Hs']. destruct (IH old h' s' w Hinv') as (H1 & H2 & H3). cbn [app].
      assert (Ha : wh_append h' = None <-> wh_append h = None).
      { unfold wh_sync in Es. destruct store; destruct (wh_append h) eqn:E; inversion Es; subst; cbn; rewrite ?E; split; congruence. }
      repeat split; auto.
      * intros Hne. apply H2. subst s'. destruct store; [discriminate | congruence].
      * intros Hx. apply Ha, H3, Hx.
      * intros Hx. apply H3, Ha, Hx.
Qed.

Theorem flush_visible_write old pre :
  let '(h, s) := wh_after open_write (Some old) pre in
  snd (fst (wh_step h s WFlush)) = Some (written pre).
Proof.
  destruct (wh_after_inv pre old open_write (Some old) [] eq_refl) as (Hinv & Hne & Ha).
  specialize (Hne ltac:(discriminate)). destruct (wh_after open_write (Some old) pre) as [h s]. cbn [fst snd] in *.
  cbn [wh_step]. pose proof (wh_sync_inv old h s _ Hinv) as H. destruct (wh_sync h s) as [[h' s'] r]. cbn [fst snd].
  destruct H as [_ ->]. destruct s; [|congruence].
  destruct Ha as [_ Ha]. rewrite (Ha eq_refl). reflexivity.
Qed.

Theorem flush_visible_append old pre :
  let '(h, s) := wh_after (open_append old) (Some old) pre in
  snd (fst (wh_step h s WFlush)) = Some (old ++ written pre).
Proof.
  assert (Hi : wh_inv old (open_append old) (Some old) []).
  { unfold wh_inv, open_append. cbn [wh_append wh_data]. split; [symmetry; apply app_nil_r|].
    exists [], []. repeat split; rewrite ?app_nil_r; reflexivity. }
  destruct (wh_after_inv pre old (open_append old) (Some old) [] Hi) as (Hinv & Hne & Ha).
  specialize (Hne ltac:(discriminate)). destruct (wh_after (open_append old) (Some old) pre) as [h s]. cbn [fst snd] in *.
  cbn [wh_step]. pose proof (wh_sync_inv old h s _ Hinv) as H. destruct (wh_sync h s) as [[h' s'] r]. cbn [fst snd].
  destruct H as [_ ->]. destruct s; [|congruence].
  destruct (wh_append h) eqn:E; [reflexivity|]. destruct Ha as [Ha _]. specialize (Ha eq_refl). discriminate.
Qed.

(* T6: a handle whose file was removed meanwhile: the sync error is swallowed, nothing is created *)
Lemma wh_run_none ops : forall h, wh_run h None ops = None.
Proof.
  induction ops as [|o ops IH]; intros h; cbn [wh_run]; [reflexivity|].
  destruct o; cbn [wh_step wh_sync]; apply IH.
Qed.
Theorem drop_after_remove h ops : wh_run h None ops = None.
Proof. apply wh_run_none. Qed.

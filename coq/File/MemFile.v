(* File/MemFile.v — mirror of MemfsFile (src/sys/fs/memfs/file.rs, after its fix) as a Read + Seek
   handle and as a Write handle, and the std::io::Cursor specification it must equal.
   u64 / i64 values are Z; slice-index failure and `pos += len` overflow are explicit Panics. *)
From Coq Require Import List ZArith NArith Bool Lia Arith.
Import ListNotations.
From RV Require Import Base.Str.
Local Open Scope Z_scope.

Definition u64_max : Z := 18446744073709551615.
Definition i64_min : Z := -9223372036854775808.
Definition i64_max : Z := 9223372036854775807.

Notation byte := N (only parsing).
Notation bytes := (list N) (only parsing).

Record memfile := { mf_pos : Z; mf_data : bytes }.

Inductive seek_from := SeekStart (o : Z) | SeekCurrent (o : Z) | SeekEnd (o : Z).
Inductive rop := RRead (buflen : nat) | RSeek (w : seek_from).
Inductive rres := RBytes (b : bytes) | RPos (p : Z) | RInvalidInput.

Definition dlen (d : bytes) : Z := Z.of_nat (length d).

(* MemfsFile::len — (data.len() as u64).saturating_sub(pos) *)
Definition mf_len (f : memfile) : Z := Z.max 0 (dlen (mf_data f) - mf_pos f).

(* io::Read for MemfsFile *)
Definition mf_read (f : memfile) (buflen : nat) : outcome (memfile * rres) :=
  let pos := Z.min (mf_pos f) (dlen (mf_data f)) in
  let len := Z.min (Z.of_nat buflen) (mf_len f) in
  (* &self.data.as_slice()[pos..pos + len] *)
  if dlen (mf_data f) <? pos + len then Panic else
  (* self.pos += len as u64 *)
  if u64_max <? mf_pos f + len then Panic else
  Done ({| mf_pos := mf_pos f + len; mf_data := mf_data f |},
        RBytes (firstn (Z.to_nat len) (skipn (Z.to_nat pos) (mf_data f)))).

(* u64::checked_add_signed *)
Definition checked_add_signed (base off : Z) : option Z :=
  let r := base + off in if (0 <=? r) && (r <=? u64_max) then Some r else None.

(* io::Seek for MemfsFile *)
Definition mf_seek (f : memfile) (w : seek_from) : memfile * rres :=
  match w with
  | SeekStart o => ({| mf_pos := o; mf_data := mf_data f |}, RPos o)
  | SeekCurrent o =>
      match checked_add_signed (mf_pos f) o with
      | Some x => ({| mf_pos := x; mf_data := mf_data f |}, RPos x)
      | None => (f, RInvalidInput)
      end
  | SeekEnd o =>
      match checked_add_signed (dlen (mf_data f)) o with
      | Some x => ({| mf_pos := x; mf_data := mf_data f |}, RPos x)
      | None => (f, RInvalidInput)
      end
  end.

Definition mf_step (f : memfile) (o : rop) : outcome (memfile * rres) :=
  match o with
  | RRead n => mf_read f n
  | RSeek w => Done (mf_seek f w)
  end.

Fixpoint mf_run (f : memfile) (ops : list rop) : outcome (memfile * list rres) :=
  match ops with
  | [] => Done (f, [])
  | o :: ops' =>
      match mf_step f o with
      | Done (f', r) => match mf_run f' ops' with
                        | Done (f'', rs) => Done (f'', r :: rs)
                        | Panic => Panic | OutOfFuel => OutOfFuel
                        end
      | Panic => Panic
      | OutOfFuel => OutOfFuel
      end
  end.

(* ---- std::io::Cursor<&[u8]> (specification, written from the std documentation) ---- *)
Record cursor := { c_pos : Z; c_data : bytes }.

(* remaining_slice: the data from min(pos, len) on *)
Definition c_remaining (c : cursor) : bytes := skipn (Z.to_nat (Z.min (c_pos c) (dlen (c_data c)))) (c_data c).

Definition c_read (c : cursor) (buflen : nat) : cursor * rres :=
  let out := firstn buflen (c_remaining c) in
  ({| c_pos := c_pos c + dlen out; c_data := c_data c |}, RBytes out).

Definition c_seek (c : cursor) (w : seek_from) : cursor * rres :=
  match w with
  | SeekStart o => ({| c_pos := o; c_data := c_data c |}, RPos o)
  | SeekCurrent o =>
      let r := c_pos c + o in
      if (r <? 0) || (u64_max <? r) then (c, RInvalidInput) else ({| c_pos := r; c_data := c_data c |}, RPos r)
  | SeekEnd o =>
      let r := dlen (c_data c) + o in
      if (r <? 0) || (u64_max <? r) then (c, RInvalidInput) else ({| c_pos := r; c_data := c_data c |}, RPos r)
  end.

Definition c_step (c : cursor) (o : rop) : cursor * rres :=
  match o with RRead n => c_read c n | RSeek w => c_seek c w end.

Fixpoint c_run (c : cursor) (ops : list rop) : cursor * list rres :=
  match ops with
  | [] => (c, [])
  | o :: ops' => let '(c', r) := c_step c o in let '(c'', rs) := c_run c' ops' in (c'', r :: rs)
  end.

(* well-formed operations: offsets within their Rust types *)
Definition rop_ok (o : rop) : Prop :=
  match o with
  | RRead _ => True
  | RSeek (SeekStart x) => 0 <= x <= u64_max
  | RSeek (SeekCurrent x) | RSeek (SeekEnd x) => i64_min <= x <= i64_max
  end.

(* ---- write / append handles (MemfsFile as io::Write + sync + Drop) over one stored file ---- *)
Inductive wop := WWrite (chunk : bytes) | WFlush.
Inductive wres := WOk | WNotFound.

(* the handle's own buffer and, for an append handle, how much of it is already stored; the store
   holds the file's content, None once the file was removed *)
Record whandle := { wh_data : bytes; wh_append : option nat }.

(* MemfsFile::sync (after the fix for lost appends): an append handle adds only its not yet stored
   tail to the *current* content; a write handle replaces the content *)
Definition wh_sync (h : whandle) (store : option bytes) : whandle * option bytes * wres :=
  match store with
  | Some cur =>
      match wh_append h with
      | Some synced => ({| wh_data := wh_data h; wh_append := Some (length (wh_data h)) |},
                        Some (cur ++ skipn synced (wh_data h)), WOk)
      | None => (h, Some (wh_data h), WOk)
      end
  | None => (h, None, WNotFound)
  end.

Definition wh_step (h : whandle) (store : option bytes) (o : wop) : whandle * option bytes * wres :=
  match o with
  | WWrite chunk => ({| wh_data := wh_data h ++ chunk; wh_append := wh_append h |}, store, WOk)   (* Vec<u8>::write appends *)
  | WFlush => wh_sync h store
  end.

(* run the ops, then drop the handle (a final sync whose error is swallowed) *)
Fixpoint wh_run (h : whandle) (store : option bytes) (ops : list wop) : option bytes :=
  match ops with
  | [] => snd (fst (wh_sync h store))
  | o :: ops' => let '(h', s', _) := wh_step h store o in wh_run h' s' ops'
  end.

(* Memfs::write: fresh empty buffer; Memfs::append: a clone of the current content, all of it stored *)
Definition open_write : whandle := {| wh_data := []; wh_append := None |}.
Definition open_append (content : bytes) : whandle := {| wh_data := content; wh_append := Some (length content) |}.

Definition written (ops : list wop) : bytes :=
  flat_map (fun o => match o with WWrite c => c | WFlush => [] end) ops.

(* Path/HelpersFacts.v — proofs for C15 (laws of the lexical helpers, for all strings). *)
From Coq Require Import List NArith Bool Lia Arith.
Import ListNotations.
From RV Require Import Base.Str Base.PathLex Base.PathLexFacts Path.Clean Path.CleanSpec Path.CleanFacts Path.Helpers.

(* ---- trim_prefix / trim_suffix ---- *)
Lemma trim_prefix_inv s p : trim_prefix (s ++ p) s = p.
Proof. unfold trim_prefix. rewrite starts_with_app. rewrite skipn_app, skipn_all, Nat.sub_diag. reflexivity. Qed.

Lemma trim_prefix_id p s : starts_with p s = false -> trim_prefix p s = p.
Proof. unfold trim_prefix. intros ->. reflexivity. Qed.

Lemma trim_suffix_inv p s : trim_suffix (p ++ s) s = p.
Proof.
  unfold trim_suffix. rewrite ends_with_app. rewrite app_length.
  replace (length p + length s - length s) with (length p) by lia.
  rewrite firstn_app, firstn_all, Nat.sub_diag. simpl. apply app_nil_r.
Qed.

Lemma trim_suffix_id p s : ends_with p s = false -> trim_suffix p s = p.
Proof. unfold trim_suffix. intros ->. reflexivity. Qed.

(* "not a prefix" in the statement's sense *)
Lemma not_prefix_starts_with p s : (forall t, p <> s ++ t) -> starts_with p s = false.
Proof.
  intros H. destruct (starts_with p s) eqn:E; [|reflexivity]. apply starts_with_iff in E as [t E]. exfalso. exact (H t E).
Qed.
Lemma not_suffix_ends_with p s : (forall t, p <> t ++ s) -> ends_with p s = false.
Proof.
  intros H. destruct (ends_with p s) eqn:E; [|reflexivity]. apply ends_with_iff in E as [t E]. exfalso. exact (H t E).
Qed.

(* ---- has / has_prefix / has_suffix agree with string containment ---- *)
Lemma has_iff p v : has p v = true <-> exists a b, p = a ++ v ++ b.
Proof. apply contains_iff. Qed.
Lemma has_prefix_iff p v : has_prefix p v = true <-> exists t, p = v ++ t.
Proof. apply starts_with_iff. Qed.
Lemma has_suffix_iff p v : has_suffix p v = true <-> exists t, p = t ++ v.
Proof. apply ends_with_iff. Qed.

(* ---- concat ---- *)
Lemma concat_app p v : concat p v = p ++ v.
Proof. reflexivity. Qed.

(* ---- parse_paths: the non-empty ':'-separated segments, in order ---- *)
Lemma segs_concat sep s acc :
  List.concat (map (fun g => g ++ [sep]) (segs sep s acc)) = rev acc ++ s ++ [sep].
Proof.
  revert acc; induction s as [|c s IH]; intros acc; simpl.
  - rewrite app_nil_r. reflexivity.
  - destruct (N.eqb_spec c sep).
    + subst c. simpl. rewrite IH. simpl. rewrite <- app_assoc. reflexivity.
    + rewrite IH. simpl. rewrite <- app_assoc. reflexivity.
Qed.

Lemma segs_no_sep sep s acc : Forall (fun c => c <> sep) acc -> Forall (Forall (fun c => c <> sep)) (segs sep s acc).
Proof.
  revert acc; induction s as [|c s IH]; intros acc Ha; simpl.
  - constructor; [apply Forall_rev; exact Ha | constructor].
  - destruct (N.eqb_spec c sep).
    + constructor; [apply Forall_rev; exact Ha | apply IH; constructor].
    + apply IH. constructor; assumption.
Qed.

Lemma parse_paths_spec v :
  parse_paths v = filter (fun g => negb (is_nil_str g)) (split_on colon v) /\
  Forall (fun g => g <> [] /\ Forall (fun c => c <> colon) g) (parse_paths v) /\
  List.concat (map (fun g => g ++ [colon]) (split_on colon v)) = v ++ [colon].
Proof.
  split; [reflexivity|]. split.
  - unfold parse_paths. apply Forall_forall. intros g Hg. apply filter_In in Hg as [Hin Hne]. split.
    + destruct g; [discriminate | discriminate].
    + pose proof (segs_no_sep colon v [] (Forall_nil _)) as H. rewrite Forall_forall in H. apply H. exact Hin.
  - apply (segs_concat colon v []).
Qed.

(* ---- ext / trim_ext ---- *)
Lemma rsplit_dot_rev_spec r after b a : rsplit_dot_rev r after = Some (b, a) ->
  exists mid, a = mid ++ after /\ rev r = b ++ dot :: mid /\ Forall (fun c => c <> dot) mid.
Proof.
  revert after; induction r as [|c r IH]; intros after; simpl; [discriminate|].
  destruct (N.eqb_spec c dot).
  - intros H. injection H as <- <-. exists []. subst c. repeat split; [constructor].
  - intros H. apply IH in H as (mid & -> & Hr & Hm). exists (mid ++ [c]). repeat split.
    + rewrite <- app_assoc. reflexivity.
    + rewrite Hr. rewrite <- app_assoc. reflexivity.
    + apply Forall_app; split; [assumption | constructor; [assumption | constructor]].
Qed.

(* the file name ends with "." ++ extension *)
Lemma extension_file_name p e : extension p = Some e ->
  exists f stem, file_name p = Some f /\ f = stem ++ dot :: e /\ stem <> [].
Proof.
  unfold extension. destruct (file_name p) as [f|]; [|discriminate].
  destruct (rsplit_dot_rev (rev f) []) as [[b a]|] eqn:E; [|discriminate].
  apply rsplit_dot_rev_spec in E as (mid & -> & Hr & _). rewrite rev_involutive in Hr. rewrite app_nil_r.
  destruct b; [discriminate|]. intros H. injection H as <-. eexists _, _. split; [reflexivity|]. split; [exact Hr | discriminate].
Qed.

(* the inputs on which the law  trim_ext p ++ "." ++ ext p = p  cannot hold: the path string does not
   end with its extension (separators or "/." follow the file name) — known finding KF-C15-ext *)
Definition kf_ext_class (p : str) : bool :=
  match extension p with Some e => negb (ends_with p (dot :: e)) | None => false end.

Lemma ext_split p e : ext p = Ok e -> kf_ext_class p = false -> trim_ext p ++ dot :: e = p.
Proof.
  unfold ext, trim_ext, kf_ext_class. destruct (extension p) as [e'|]; [|discriminate].
  intros H. injection H as ->. intros Hk. apply negb_false_iff in Hk.
  unfold trim_suffix. rewrite Hk. apply ends_with_iff in Hk as [t ->].
  rewrite app_length. replace (length t + length (dot :: e) - length (dot :: e)) with (length t) by lia.
  rewrite firstn_app, firstn_all, Nat.sub_diag. simpl. rewrite app_nil_r. reflexivity.
Qed.

Lemma ext_split_refuted : exists p e, ext p = Ok e /\ kf_ext_class p = true /\ trim_ext p ++ dot :: e <> p.
Proof. exists [97; 46; 98; 47]%N, [98]%N. vm_compute. repeat split; discriminate. Qed.   (* "a.b/" *)

Example kf_ext_class_typical : kf_ext_class [47; 120; 47; 97; 46; 116; 120; 116]%N = false.   (* "/x/a.txt" *)
Proof. reflexivity. Qed.

Lemma trim_ext_no_ext p : extension p = None -> trim_ext p = p.
Proof. unfold trim_ext. intros ->. reflexivity. Qed.

(* ---- name is base without the extension ---- *)
Lemma last_opt_rev {A} (l : list A) : last_opt l = match rev l with [] => None | x :: _ => Some x end.
Proof. reflexivity. Qed.

Lemma name_base p : 
  match ext p with
  | inl e => exists n b, name p = Ok n /\ base p = Ok b /\ n ++ dot :: e = b
  | inr _ => name p = base p
  end.
Proof.
  unfold ext. destruct (extension p) as [e|] eqn:E.
  - destruct (extension_file_name p e E) as (f & stem & Hf & -> & _).
    unfold name, base. unfold file_name in Hf. rewrite last_opt_rev.
    destruct (rev (components p)) as [|c cs]; [discriminate|]. destruct c; try discriminate.
    injection Hf as ->. cbn [comp_to_string comp_str Ok]. rewrite E.
    eexists _, _. split; [reflexivity|]. split; [reflexivity|].
    change (stem ++ dot :: e) with (stem ++ (dot :: e)). rewrite trim_suffix_inv. reflexivity.
  - unfold name. destruct (base p); [rewrite E|]; reflexivity.
Qed.

(* ---- mash ---- *)
Lemma segs_app_sep sep d q acc : segs sep (d ++ sep :: q) acc = segs sep d acc ++ segs sep q [].
Proof.
  revert acc; induction d as [|c d IH]; intros acc; simpl.
  - rewrite N.eqb_refl. reflexivity.
  - destruct (N.eqb c sep); [rewrite IH; reflexivity | apply IH].
Qed.

Lemma split_app_slash d q : split (d ++ slash :: q) = split d ++ split q.
Proof. apply segs_app_sep. Qed.

Lemma is_rooted_app d q : d <> [] -> is_rooted (d ++ q) = is_rooted d.
Proof. destruct d; [congruence | reflexivity]. Qed.

Lemma components_app_slash d q : d <> [] ->
  components (d ++ slash :: q) = components d ++ flat_map (seg_comp false) (split q).
Proof.
  intros Hd. unfold components. rewrite split_app_slash, is_rooted_app by assumption.
  pose proof (split_nonempty d) as Hne. destruct (split d) as [|g gs]; [congruence|].
  cbn [app]. rewrite flat_map_app. rewrite <- !app_assoc. reflexivity.
Qed.

Lemma strip_seps_unrooted b : is_rooted (strip_seps b) = false.
Proof.
  induction b as [|c b IH]; [reflexivity|]. simpl. destruct (N.eqb c slash) eqn:E; [exact IH | simpl; exact E].
Qed.

Lemma flat_map_seg_nil : flat_map (seg_comp false) [[]] = [].
Proof. reflexivity. Qed.

Lemma components_join d q : d <> [] -> is_rooted q = false ->
  components (join d q) = components d ++ flat_map (seg_comp false) (split q).
Proof.
  intros Hd Hq. unfold join, push. rewrite Hq. destruct d as [|c0 d0] eqn:Ed; [congruence|]. rewrite <- Ed in *.
  assert (Hl : exists d' c, d = d' ++ [c]) by (destruct (exists_last Hd) as (d' & c & ->); eauto).
  destruct Hl as (d' & c & ->). rewrite last_char_snoc. destruct (N.eqb_spec c slash) as [->|Hc].
  - rewrite <- app_assoc. cbn [app]. destruct d' as [|x d'].
    + cbn [app]. unfold components. cbn [is_rooted]. rewrite N.eqb_refl.
      change (slash :: q) with ([] ++ slash :: q). rewrite split_app_slash. reflexivity.
    + rewrite components_app_slash by discriminate.
      rewrite (components_app_slash (x :: d') []) by discriminate.
      change (split []) with [[] : list N]. rewrite flat_map_seg_nil, app_nil_r. reflexivity.
  - change ([slash] ++ q) with (slash :: q). apply components_app_slash. destruct d'; discriminate.
Qed.

Lemma tail_names_tailc tl : tail_ok tl -> Forall comp_name_ok tl -> Forall tailc_ok tl.
Proof.
  intros H1 H2. unfold tail_ok in H1. rewrite Forall_forall in *. intros c Hc.
  specialize (H1 c Hc). specialize (H2 c Hc). destruct c; simpl in *; auto.
Qed.

Lemma components_render_cur tl : Forall tailc_ok tl -> components (render (CCur :: tl)) = CCur :: tl.
Proof.
  intros HF.
  assert (HN : Forall nonroot_ok (CCur :: tl)).
  { constructor; [exact I|]. eapply Forall_impl; [|exact HF]. apply tailc_nonroot. }
  rewrite render_unrooted by (try discriminate; assumption). cbn [map comp_str].
  unfold components.
  assert (Hns : Forall noslash ([dot] :: map comp_str tl)).
  { constructor; [repeat constructor; discriminate | apply map_comp_str_noslash; assumption]. }
  rewrite (split_join _ Hns ltac:(discriminate)).
  assert (Hr : is_rooted (join_names ([dot] :: map comp_str tl)) = false) by (destruct (map comp_str tl); reflexivity).
  rewrite Hr. cbn [negb app seg_comp]. cbn. rewrite flat_map_seg_comp by assumption. reflexivity.
Qed.

Lemma components_render_components s : components (render (components s)) = components s.
Proof.
  pose proof (components_names_ok s) as Hn.
  destruct (components_head_root s) as (hd & tl & E & Ht & Hhd). rewrite E in *.
  assert (HT : Forall tailc_ok tl).
  { apply tail_names_tailc; [assumption|]. apply Forall_app in Hn as [_ Hn]. exact Hn. }
  destruct Hhd as [[_ ->]|[_ [->| ->]]]; cbn [app].
  - apply components_render_rooted. exact HT.
  - destruct tl; [reflexivity|]. apply components_render_unrooted; [discriminate | exact HT].
  - apply components_render_cur. exact HT.
Qed.

(* the components of mash(d, p) are those of d followed by those of p with every leading separator
   removed ("." segments of p are not components once something precedes them) *)
Lemma mash_components d p : d <> [] ->
  components (mash d p) = components d ++ flat_map (seg_comp false) (split (strip_seps p)).
Proof.
  intros Hd. unfold mash. rewrite components_render_components.
  apply components_join; [assumption | apply strip_seps_unrooted].
Qed.

Lemma mash_components_empty_dir p : components (mash [] p) = components (strip_seps p).
Proof.
  unfold mash. rewrite components_render_components. unfold join, push. rewrite strip_seps_unrooted. reflexivity.
Qed.

Lemma comps_prefixb_app a b : comps_prefixb a (a ++ b) = true.
Proof.
  induction a as [|x a IH]; [reflexivity|]. simpl. rewrite IH, andb_true_r. apply comp_eqb_eq. reflexivity.
Qed.

(* so the result always stays lexically under d *)
Lemma mash_under d p : path_starts_with (mash d p) d = true.
Proof.
  unfold path_starts_with. destruct d as [|c d].
  - reflexivity.
  - rewrite mash_components by discriminate. apply comps_prefixb_app.
Qed.

(* and it is a rendering of its own components: no repeated or trailing separator *)
Lemma mash_rendered d p : mash d p = render (components (mash d p)).
Proof. unfold mash. rewrite components_render_components. reflexivity. Qed.

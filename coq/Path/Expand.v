(* Path/Expand.v — mirror of rivia::sys::expand (src/sys/fs/path.rs, after the fix for a trailing
   '$'), with the environment as an explicit finite map argument, and the token-level specification
   of variable substitution inside one component. *)
From Coq Require Import List NArith Bool Lia Arith.
Import ListNotations.
From RV Require Import Base.Str Base.PathLex Core.Iter Path.Helpers.

Definition envmap := str -> option str.

Definition s_home : str := [72; 79; 77; 69]%N.          (* "HOME" *)
Definition s_tilde_slash : str := [tilde; slash].

Definition home_dir (env : envmap) : res str :=
  match env s_home with Some h => Ok h | None => Err EVarNotPresent end.

Definition ne_dollar (c : N) : bool := negb (N.eqb c dollar).
Definition var_char (c : N) : bool := negb (N.eqb c dollar) && negb (N.eqb c rbrace).

Definition next_if_eq (c : N) (s : str) : str :=
  match s with x :: s' => if N.eqb x c then s' else s | [] => [] end.

(* the `while chars.peek().is_some()` loop over one component *)
Fixpoint expand_seg (fuel : nat) (env : envmap) (chars : str) (acc : str) : res str :=
  match fuel with
  | O => Err EOther
  | S f =>
    match chars with
    | [] => Ok acc
    | _ =>
      let '(lit, rest) := take_while_p ne_dollar chars in
      let acc := acc ++ lit in
      match rest with
      | c :: rest1 =>
          if N.eqb c dollar then
            let rest2 := next_if_eq lbrace rest1 in
            let '(var, rest3) := take_while_p var_char rest2 in
            let rest4 := next_if_eq rbrace rest3 in
            match var with
            | [] => Err EInvalidExpansion
            | _ => match env var with
                   | Some v => expand_seg f env rest4 (acc ++ v)
                   | None => Err EVarNotPresent
                   end
            end
          else Err EOther            (* unreachable: take_while_p stops only at '$' *)
      | [] => Ok acc
      end
    end
  end.

Fixpoint expand_comps (env : envmap) (cs : list comp) (buf : str) : res str :=
  match cs with
  | [] => Ok buf
  | CNormal y :: cs' =>
      match expand_seg (S (length y)) env y [] with
      | inl s => expand_comps env cs' (push buf s)
      | inr e => Err e
      end
  | c :: cs' => expand_comps env cs' (push buf (comp_str c))
  end.

(* the `match pathstr.matches('~').count()` part *)
Definition expand_home (env : envmap) (p : str) : res str :=
  let cnt := count_char tilde p in
  if Nat.ltb 1 cnt then Err EMultipleHomeSymbols
  else if Nat.eqb cnt 1 && negb (starts_with p s_tilde_slash) && negb (str_eqb p [tilde]) then Err EInvalidExpansion
  else if Nat.eqb cnt 1 && str_eqb p [tilde] then home_dir env
  else if Nat.eqb cnt 1 then
    match home_dir env with inl h => Ok (mash h (skipn 2 p)) | inr e => Err e end
  else Ok p.

(* the `if pathstr.matches('$').some()` part *)
Definition expand_vars (env : envmap) (p1 : str) : res str :=
  if Nat.ltb 0 (count_char dollar p1) then expand_comps env (components p1) [] else Ok p1.

Definition expand (env : envmap) (p : str) : res str :=
  match expand_home env p with
  | inr e => Err e
  | inl p1 => expand_vars env p1
  end.

(* ---- token-level specification of one component ---- *)
Inductive tok := TLit (s : str) | TBrace (name : str) | TBare (name : str).

Definition unparse_tok (t : tok) : str :=
  match t with
  | TLit s => s
  | TBrace n => dollar :: lbrace :: n ++ [rbrace]
  | TBare n => dollar :: n
  end.
Definition unparse (ts : list tok) : str := flat_map unparse_tok ts.

Definition name_ok (n : str) : Prop := n <> [] /\ forallb var_char n = true.

(* a bare $NAME runs to the next '$', '}' or the end of the component, so it must be followed by
   another variable or nothing; its name cannot start with '{' (that brace would be dropped) *)
Fixpoint toks_wf (ts : list tok) : Prop :=
  match ts with
  | [] => True
  | TLit s :: ts' => s <> [] /\ forallb ne_dollar s = true /\
                     match ts' with TLit _ :: _ => False | _ => True end /\ toks_wf ts'
  | TBrace n :: ts' => name_ok n /\ toks_wf ts'
  | TBare n :: ts' => name_ok n /\ hd_error n <> Some lbrace /\
                      match ts' with TLit _ :: _ => False | _ => True end /\ toks_wf ts'
  end.

Fixpoint subst (env : envmap) (ts : list tok) : res str :=
  match ts with
  | [] => Ok []
  | TLit s :: ts' => match subst env ts' with inl r => Ok (s ++ r) | inr e => Err e end
  | TBrace n :: ts' | TBare n :: ts' =>
      match env n with
      | Some v => match subst env ts' with inl r => Ok (v ++ r) | inr e => Err e end
      | None => Err EVarNotPresent
      end
  end.

(* Path/CleanSpec.v — the specification side of C14: where a path leads lexically (denotation),
   its unique shortest rendering (canon), lexical equivalence, and the rule-based normal form
   "none of the six documented rewrite rules applies any more".  No reference to the Rust loop. *)
From Coq Require Import List NArith Bool Lia Arith.
Import ListNotations.
From RV Require Import Base.Str Base.PathLex.

(* denotation: rooted?, number of leading "..", remaining names (outermost first) *)
Record den := { d_root : bool; d_ups : nat; d_names : list str }.

Fixpoint den_go (cs : list comp) (r : bool) (ups : nat) (rnames : list str) : den :=
  match cs with
  | [] => {| d_root := r; d_ups := ups; d_names := rev rnames |}
  | CRoot :: t => den_go t true 0 []
  | CCur :: t => den_go t r ups rnames
  | CParent :: t => match rnames with
                    | _ :: rn => den_go t r ups rn
                    | [] => if r then den_go t r ups [] else den_go t r (S ups) []
                    end
  | CNormal n :: t => den_go t r ups (n :: rnames)
  end.
Definition denote (cs : list comp) : den := den_go cs false 0 [].

Definition canon (d : den) : list comp :=
  match (if d_root d then [CRoot] else []) ++ repeat CParent (d_ups d) ++ map CNormal (d_names d) with
  | [] => [CCur]
  | l => l
  end.

Definition clean_spec (s : str) : str := render (canon (denote (components s))).

Definition lex_equiv (s t : str) : Prop := denote (components s) = denote (components t).

(* ---- the rule-based normal form, on the raw '/'-separated segments of the string ---- *)
Definition is_dot (g : str) : bool := str_eqb g [dot].
Definition is_dotdot (g : str) : bool := str_eqb g [dot; dot].
Definition proper (g : str) : bool := negb (str_eqb g []) && negb (is_dot g) && negb (is_dotdot g).

Fixpoint drop_dotdots (gs : list str) : list str :=
  match gs with
  | g :: gs' => if is_dotdot g then drop_dotdots gs' else gs
  | [] => []
  end.

(* NormalForm t: t is non-empty and
   1. has no repeated separator and 6. no trailing separator (no empty segment, except the one
      before the root's '/'; "/" itself is allowed),
   2. has no "." segment (except t = "."),
   3. no ".." follows a normal segment, 4. no ".." in a rooted path,
   5. (leading ".." of a relative path are allowed). *)
Definition normal_form_b (t : str) : bool :=
  match split t with
  | [] => false
  | [[]] => false                                   (* t = "" *)
  | [] :: gs =>                                     (* rooted *)
      match gs with
      | [[]] => true                                (* t = "/" *)
      | _ => forallb proper gs
      end
  | gs => str_eqb t [dot] || forallb proper (drop_dotdots gs)
  end.
Definition NormalForm (t : str) : Prop := normal_form_b t = true.

(* Path/CleanFacts.v — proofs for C14: the mirror of sys::clean computes the canonical rendering
   of the path's denotation; normal form, uniqueness, idempotence, absoluteness, non-emptiness. *)
From Coq Require Import List NArith Bool Lia Arith.
Import ListNotations.
From RV Require Import Base.Str Base.PathLex Path.Clean Path.CleanSpec.

(* ------------------------------------------------------------------------------------------ *)
(* shape of `components s`: an optional CRoot or CCur head, then only CParent / CNormal *)
Definition tail_ok (cs : list comp) : Prop :=
  Forall (fun c => match c with CRoot | CCur => False | _ => True end) cs.

Lemma seg_comp_false_tail g : tail_ok (seg_comp false g).
Proof.
  unfold tail_ok. destruct g as [|a [|b [|c g]]]; simpl; try constructor; try exact I; try constructor.
  - destruct (N.eqb a dot); constructor; try exact I; constructor.
  - destruct (N.eqb a dot && N.eqb b dot); constructor; try exact I; constructor.
Qed.

Lemma flat_map_tail gs : tail_ok (flat_map (seg_comp false) gs).
Proof.
  induction gs as [|g gs IH]; simpl; [constructor|].
  apply Forall_app; split; [apply seg_comp_false_tail | exact IH].
Qed.

Lemma seg_comp_true_shape g : seg_comp true g = [CCur] \/ seg_comp true g = seg_comp false g.
Proof.
  destruct g as [|a [|b [|c g]]]; simpl; auto. destruct (N.eqb a dot); auto.
Qed.

Lemma components_shape s :
  exists hd tl, components s = hd ++ tl /\ tail_ok tl /\ (hd = [] \/ hd = [CRoot] \/ hd = [CCur]).
Proof.
  unfold components. destruct (split s) as [|g gs] eqn:E.
  - exists [], []. repeat split; [constructor | auto].
  - destruct (is_rooted s); simpl.
    + exists [CRoot], (seg_comp false g ++ flat_map (seg_comp false) gs). repeat split; auto.
      apply Forall_app; split; [apply seg_comp_false_tail | apply flat_map_tail].
    + destruct (seg_comp_true_shape g) as [H|H]; rewrite H.
      * exists [CCur], (flat_map (seg_comp false) gs). repeat split; auto. apply flat_map_tail.
      * exists [], (seg_comp false g ++ flat_map (seg_comp false) gs). repeat split; auto.
        apply Forall_app; split; [apply seg_comp_false_tail | apply flat_map_tail].
Qed.

(* ------------------------------------------------------------------------------------------ *)
(* the loop invariant: buf = body r ups rn, cnt = length buf, prev = last of buf *)
Definition body (r : bool) (ups : nat) (rn : list str) : list comp :=
  (if r then [CRoot] else []) ++ repeat CParent ups ++ map CNormal (rev rn).

Lemma lastc_app b c : lastc (b ++ [c]) = Some c.
Proof. unfold lastc. rewrite rev_app_distr. reflexivity. Qed.

Lemma repeat_snoc {A} (x : A) n : repeat x n ++ [x] = x :: repeat x n.
Proof. induction n; simpl; [reflexivity| rewrite IHn; reflexivity]. Qed.

Lemma body_snoc_parent k : body false (S k) [] = body false k [] ++ [CParent].
Proof.
  unfold body. cbn [app rev map]. rewrite !app_nil_r. cbn [repeat]. symmetry. apply repeat_snoc.
Qed.

Lemma body_snoc_name r ups n rn : body r ups (n :: rn) = body r ups rn ++ [CNormal n].
Proof. unfold body. cbn [rev]. rewrite map_app. cbn. rewrite !app_assoc. reflexivity. Qed.

Lemma loop_spec t : tail_ok t -> forall r ups rn,
  (r = true -> ups = 0) ->
  clean_loop t (length (body r ups rn)) (lastc (body r ups rn)) (body r ups rn)
  = Done (let d := den_go t r ups rn in body (d_root d) (d_ups d) (rev (d_names d))).
Proof.
  induction 1 as [|c t Hc Ht IH]; intros r ups rn Hr; cbn [clean_loop den_go].
  - simpl. rewrite rev_involutive. reflexivity.
  - destruct c as [| | |n]; try contradiction.
    + (* CParent *)
      destruct rn as [|n rn].
      * destruct r.
        -- rewrite (Hr eq_refl). cbn. specialize (IH true 0 [] (fun _ => eq_refl)). cbn in IH. exact IH.
        -- destruct ups as [|ups].
           ++ cbn. specialize (IH false 1 [] (fun H => ltac:(discriminate))). cbn in IH. exact IH.
           ++ rewrite (body_snoc_parent ups), lastc_app. cbn [opt_is_parent negb andb].
              rewrite app_length. cbn [length].
              replace (Nat.eqb (length (body false ups []) + 1) 0) with false by (symmetry; apply Nat.eqb_neq; lia).
              cbn [negb andb].
              specialize (IH false (S (S ups)) [] (fun H => ltac:(discriminate))).
              rewrite (body_snoc_parent (S ups)), (body_snoc_parent ups) in IH.
              rewrite lastc_app, !app_length in IH. cbn [length] in IH.
              unfold cpush.
              replace (S (length (body false ups []) + 1)) with (length (body false ups []) + 1 + 1) by lia.
              exact IH.
      * rewrite body_snoc_name, lastc_app, removelast_last. cbn [opt_is_parent negb andb].
        replace (Nat.eqb (length (body r ups rn ++ [CNormal n])) 0) with false
          by (rewrite app_length; cbn; symmetry; apply Nat.eqb_neq; lia).
        cbn [negb andb]. rewrite app_length. cbn [length].
        replace (length (body r ups rn) + 1 - 1) with (length (body r ups rn)) by lia.
        apply IH; assumption.
    + (* CNormal *)
      assert (Hb : cpush (body r ups rn) (CNormal n) = body r ups (n :: rn))
        by (rewrite body_snoc_name; reflexivity).
      rewrite Hb. specialize (IH r ups (n :: rn) Hr). cbv zeta in IH |- *.
      rewrite <- IH. f_equal.
      * rewrite body_snoc_name, app_length. cbn. lia.
      * rewrite body_snoc_name, lastc_app. reflexivity.
Qed.

Lemma body_canon d : canon d = match body (d_root d) (d_ups d) (rev (d_names d)) with [] => [CCur] | l => l end.
Proof. unfold canon, body. rewrite rev_involutive. reflexivity. Qed.

Lemma clean_comps_spec cs :
  (exists hd tl, cs = hd ++ tl /\ tail_ok tl /\ (hd = [] \/ hd = [CRoot] \/ hd = [CCur])) ->
  clean_comps cs = Done (canon (denote cs)).
Proof.
  intros (hd & tl & -> & Ht & Hhd). destruct Hhd as [Hhd|[Hhd|Hhd]]; subst hd; unfold clean_comps, denote; cbn [app clean_loop den_go Nat.eqb].
  - pose proof (loop_spec tl Ht false 0 [] (fun _ => eq_refl)) as H. cbn in H. rewrite H.
    rewrite body_canon. cbn. destruct (body _ _ _); reflexivity.
  - pose proof (loop_spec tl Ht true 0 [] (fun _ => eq_refl)) as H. cbn in H. cbn. rewrite H.
    rewrite body_canon. cbn. destruct (body _ _ _); reflexivity.
  - pose proof (loop_spec tl Ht false 0 [] (fun _ => eq_refl)) as H. cbn in H. rewrite H.
    rewrite body_canon. cbn. destruct (body _ _ _); reflexivity.
Qed.

(* T1: the mirror never panics and returns the canonical rendering of the denotation *)
Lemma clean_is_spec s : clean s = Done (clean_spec s).
Proof.
  unfold clean, clean_spec. rewrite (clean_comps_spec _ (components_shape s)). reflexivity.
Qed.

Lemma clean_total s : clean s <> Panic /\ clean s <> OutOfFuel.
Proof. rewrite clean_is_spec. split; discriminate. Qed.

(* ------------------------------------------------------------------------------------------ *)
(* properties of the denotation *)
From RV Require Import Base.PathLexFacts.

Definition den_ok (d : den) : Prop :=
  (d_root d = true -> d_ups d = 0) /\ Forall is_name (d_names d).

Lemma den_go_ok cs : Forall comp_name_ok cs -> forall r ups rn,
  (r = true -> ups = 0) -> Forall is_name rn -> den_ok (den_go cs r ups rn).
Proof.
  induction 1 as [|c cs Hc _ IH]; intros r ups rn Hr Hn; cbn [den_go].
  - split; simpl; [assumption | apply Forall_rev; assumption].
  - destruct c as [| | |n].
    + apply IH; [reflexivity | constructor].
    + apply IH; assumption.
    + destruct rn as [|m rn].
      * destruct r; apply IH; try assumption; try constructor. discriminate.
      * apply IH; [assumption | inversion Hn; assumption].
    + apply IH; [assumption | constructor; assumption].
Qed.

Lemma denote_ok s : den_ok (denote (components s)).
Proof. apply den_go_ok; [apply components_names_ok | reflexivity | constructor]. Qed.

Lemma den_go_names ns : forall r ups rn,
  den_go (map CNormal ns) r ups rn = {| d_root := r; d_ups := ups; d_names := rev rn ++ ns |}.
Proof.
  induction ns as [|n ns IH]; intros r ups rn; cbn [map den_go].
  - rewrite app_nil_r. reflexivity.
  - rewrite IH. cbn [rev]. rewrite <- app_assoc. reflexivity.
Qed.

Lemma den_go_ups k : forall t ups, den_go (repeat CParent k ++ t) false ups [] = den_go t false (ups + k) [].
Proof.
  induction k as [|k IH]; intros t ups; cbn [repeat app den_go].
  - rewrite Nat.add_0_r. reflexivity.
  - rewrite IH. f_equal. lia.
Qed.

Lemma denote_canon d : den_ok d -> denote (canon d) = d.
Proof.
  destruct d as [r ups ns]. intros [Hr _]. simpl in Hr. unfold canon, denote. cbn [d_root d_ups d_names].
  destruct r.
  - rewrite (Hr eq_refl). cbn [repeat app den_go]. rewrite den_go_names. reflexivity.
  - cbn [app]. destruct (repeat CParent ups ++ map CNormal ns) eqn:E.
    + destruct ups; [|discriminate]. destruct ns; [|discriminate]. reflexivity.
    + rewrite <- E. rewrite den_go_ups, den_go_names. reflexivity.
Qed.

(* the canonical list is [CCur], or root/ups/names with proper names *)
Lemma canon_tail_ok d : den_ok d -> Forall tailc_ok (repeat CParent (d_ups d) ++ map CNormal (d_names d)).
Proof.
  intros [_ Hn]. apply Forall_app; split.
  - apply Forall_forall. intros c Hc. apply repeat_spec in Hc. subst. exact I.
  - apply Forall_map. exact Hn.
Qed.

Lemma components_render_canon d : den_ok d -> components (render (canon d)) = canon d.
Proof.
  intros Hd. pose proof (canon_tail_ok d Hd) as HT. unfold canon. destruct (d_root d).
  - cbn [app]. apply components_render_rooted. exact HT.
  - cbn [app]. destruct (repeat CParent (d_ups d) ++ map CNormal (d_names d)) eqn:E.
    + reflexivity.
    + apply components_render_unrooted; [discriminate | exact HT].
Qed.

(* T2a: idempotence *)
Lemma clean_spec_idem s : clean_spec (clean_spec s) = clean_spec s.
Proof.
  unfold clean_spec. pose proof (denote_ok s) as Hd.
  rewrite components_render_canon by assumption. rewrite denote_canon by assumption. reflexivity.
Qed.

Lemma clean_idem s r : clean s = Done r -> clean r = Done r.
Proof. rewrite !clean_is_spec. intros H. injection H as <-. rewrite clean_spec_idem. reflexivity. Qed.

(* T2b: never empty *)
Lemma canon_nonempty d : canon d <> [].
Proof. unfold canon. destruct (_ ++ _); discriminate. Qed.

Lemma render_canon_nonempty d : den_ok d -> render (canon d) <> [].
Proof.
  intros Hd E. pose proof (components_render_canon d Hd) as H. rewrite E in H.
  cbn in H. symmetry in H. exact (canon_nonempty d H).
Qed.

Lemma clean_nonempty s r : clean s = Done r -> r <> [].
Proof. rewrite clean_is_spec. intros H. injection H as <-. apply render_canon_nonempty, denote_ok. Qed.

(* T2c: absoluteness is preserved *)
Lemma den_go_root_tail t : tail_ok t -> forall r ups rn, d_root (den_go t r ups rn) = r.
Proof.
  induction 1 as [|c t Hc _ IH]; intros r ups rn; cbn [den_go]; [reflexivity|].
  destruct c; try contradiction.
  - destruct rn; [destruct r|]; apply IH.
  - apply IH.
Qed.

Lemma components_head_root s :
  exists hd tl, components s = hd ++ tl /\ tail_ok tl /\
    ((is_rooted s = true /\ hd = [CRoot]) \/ (is_rooted s = false /\ (hd = [] \/ hd = [CCur]))).
Proof.
  unfold components. pose proof (split_nonempty s) as Hne. destruct (split s) as [|g gs]; [congruence|].
  destruct (is_rooted s); cbn [negb app].
  - exists [CRoot], (seg_comp false g ++ flat_map (seg_comp false) gs). repeat split; auto.
    apply Forall_app; split; [apply seg_comp_false_tail | apply flat_map_tail].
  - destruct (seg_comp_true_shape g) as [H|H]; rewrite H.
    + exists [CCur], (flat_map (seg_comp false) gs). repeat split; auto. apply flat_map_tail.
    + exists [], (seg_comp false g ++ flat_map (seg_comp false) gs). repeat split; auto.
      apply Forall_app; split; [apply seg_comp_false_tail | apply flat_map_tail].
Qed.

Lemma denote_root s : d_root (denote (components s)) = is_rooted s.
Proof.
  destruct (components_head_root s) as (hd & tl & -> & Ht & [[-> ->]|[-> [->| ->]]]);
    unfold denote; cbn [app den_go]; apply den_go_root_tail; assumption.
Qed.

Lemma render_canon_rooted d : den_ok d -> is_rooted (render (canon d)) = d_root d.
Proof.
  intros Hd. pose proof (canon_tail_ok d Hd) as HT.
  assert (HN : Forall nonroot_ok (repeat CParent (d_ups d) ++ map CNormal (d_names d)))
    by (eapply Forall_impl; [|exact HT]; apply tailc_nonroot).
  unfold canon. destruct (d_root d); cbn [app].
  - rewrite render_rooted by assumption. reflexivity.
  - destruct (repeat CParent (d_ups d) ++ map CNormal (d_names d)) as [|c l] eqn:E; [reflexivity|].
    rewrite render_unrooted by (try discriminate; assumption).
    inversion HN as [|? ? Hc _]; subst. destruct (comp_str_nonroot c Hc) as [H1 H2].
    cbn [map]. destruct (comp_str c) as [|ch g] eqn:Ec; [congruence|]. inversion H2; subst.
    destruct (map comp_str l); simpl; apply N.eqb_neq; assumption.
Qed.

Lemma clean_preserves_absolute s r : clean s = Done r -> is_absolute r = is_absolute s.
Proof.
  rewrite clean_is_spec. intros H. injection H as <-. unfold is_absolute, clean_spec.
  rewrite render_canon_rooted by apply denote_ok. apply denote_root.
Qed.

(* T2d: the result is lexically equivalent to the argument *)
Lemma clean_equiv s : lex_equiv s (clean_spec s).
Proof.
  unfold lex_equiv, clean_spec. rewrite components_render_canon by apply denote_ok.
  rewrite denote_canon by apply denote_ok. reflexivity.
Qed.

(* ------------------------------------------------------------------------------------------ *)
(* the rule-based normal form *)
Lemma clean_spec_render_canon d : den_ok d -> clean_spec (render (canon d)) = render (canon d).
Proof.
  intros Hd. unfold clean_spec. rewrite components_render_canon by assumption.
  rewrite denote_canon by assumption. reflexivity.
Qed.

Lemma proper_is_name g : noslash g -> proper g = true -> is_name g.
Proof.
  unfold proper, is_dot, is_dotdot. intros Hn H.
  apply andb_true_iff in H as [H H3]. apply andb_true_iff in H as [H1 H2].
  apply negb_true_iff in H1, H2, H3. apply str_eqb_neq in H1, H2, H3. repeat split; assumption.
Qed.

Lemma is_name_proper g : is_name g -> proper g = true.
Proof.
  intros (H1 & _ & H2 & H3). unfold proper, is_dot, is_dotdot.
  apply str_eqb_neq in H1, H2, H3. rewrite H1, H2, H3. reflexivity.
Qed.

Lemma forallb_proper_names gs : Forall noslash gs -> forallb proper gs = true -> Forall is_name gs.
Proof.
  induction 1 as [|g gs Hg _ IH]; intros H; [constructor|]. simpl in H. apply andb_true_iff in H as [H1 H2].
  constructor; [apply proper_is_name; assumption | apply IH; assumption].
Qed.

Lemma names_forallb_proper gs : Forall is_name gs -> forallb proper gs = true.
Proof. induction 1 as [|g gs Hg _ IH]; [reflexivity|]. simpl. rewrite is_name_proper by assumption. exact IH. Qed.

Lemma drop_dotdots_split gs : exists k, gs = repeat [dot; dot] k ++ drop_dotdots gs.
Proof.
  induction gs as [|g gs [k IH]]; [exists 0; reflexivity|]. simpl. unfold is_dotdot.
  destruct (str_eqb g [dot; dot]) eqn:E.
  - apply str_eqb_eq in E. subst g. exists (S k). simpl. f_equal. exact IH.
  - exists 0. reflexivity.
Qed.

Lemma drop_dotdots_names k ns : Forall is_name ns -> drop_dotdots (repeat [dot; dot] k ++ ns) = ns.
Proof.
  intros Hn. induction k as [|k IH]; simpl; [|exact IH].
  destruct ns as [|n ns]; [reflexivity|]. simpl. inversion Hn as [|? ? (_ & _ & _ & H) _]; subst.
  unfold is_dotdot. apply str_eqb_neq in H. rewrite H. reflexivity.
Qed.

Lemma map_comp_str_body k ns :
  map comp_str (repeat CParent k ++ map CNormal ns) = repeat [dot; dot] k ++ ns.
Proof.
  rewrite map_app, map_map. cbn [comp_str]. rewrite map_id. f_equal.
  induction k; simpl; [reflexivity | f_equal; assumption].
Qed.

Lemma normal_form_render_canon d : den_ok d -> NormalForm (render (canon d)).
Proof.
  intros Hd. pose proof (canon_tail_ok d Hd) as HT. destruct Hd as [Hr Hn].
  assert (HN : Forall nonroot_ok (repeat CParent (d_ups d) ++ map CNormal (d_names d)))
    by (eapply Forall_impl; [|exact HT]; apply tailc_nonroot).
  unfold NormalForm, normal_form_b, canon. destruct (d_root d) eqn:Er; cbn [app].
  - rewrite (Hr eq_refl) in *. cbn [repeat app] in *. rewrite render_rooted by assumption.
    destruct (d_names d) as [|n ns] eqn:En; [reflexivity|].
    rewrite split_slash_join by (try discriminate; apply map_comp_str_noslash; assumption).
    rewrite map_map. cbn [comp_str]. rewrite map_id.
    pose proof (names_forallb_proper _ Hn) as Hp.
    destruct n; destruct ns; try exact Hp; reflexivity.
  - destruct (repeat CParent (d_ups d) ++ map CNormal (d_names d)) as [|c l] eqn:E; [reflexivity|].
    rewrite render_unrooted by (try discriminate; assumption).
    rewrite split_join by (try discriminate; apply map_comp_str_noslash; assumption).
    rewrite <- E, map_comp_str_body.
    assert (Hd : drop_dotdots (repeat [dot; dot] (d_ups d) ++ d_names d) = d_names d)
      by (apply drop_dotdots_names; assumption).
    assert (Hfirst : exists g gs, repeat [dot; dot] (d_ups d) ++ d_names d = g :: gs /\ g <> []).
    { destruct (d_ups d); simpl.
      - destruct (d_names d) as [|n ns]; [simpl in E; discriminate|]. exists n, ns. split; [reflexivity|].
        inversion Hn as [|? ? (H & _) _]; assumption.
      - eexists _, _. split; [reflexivity | discriminate]. }
    destruct Hfirst as (g & gs & Eg & Hg). rewrite Eg in *. destruct g as [|ch g]; [congruence|].
    rewrite Hd. rewrite names_forallb_proper by assumption. apply orb_true_r.
Qed.

(* T3a: clean returns a path in normal form *)
Lemma clean_normal s : NormalForm (clean_spec s).
Proof. apply normal_form_render_canon, denote_ok. Qed.

Lemma normal_form_is_canon t : NormalForm t -> exists d, den_ok d /\ t = render (canon d).
Proof.
  unfold NormalForm, normal_form_b. intros H. pose proof (join_split t) as Hj.
  pose proof (split_all_noslash t) as Hns. destruct (split t) as [|g gs] eqn:Es; [discriminate|].
  destruct g as [|ch g].
  - destruct gs as [|g1 gs]; [discriminate|].
    pose proof (Forall_inv_tail Hns) as Hns'.
    assert (Hcase : (g1 = [] /\ gs = []) \/ forallb proper (g1 :: gs) = true).
    { destruct g1; [destruct gs; [left; split; reflexivity | right; exact H] | right; exact H]. }
    destruct Hcase as [[-> ->] | Hp].
    + exists {| d_root := true; d_ups := 0; d_names := [] |}. split; [split; [reflexivity | constructor]|].
      simpl in Hj. rewrite <- Hj. reflexivity.
    + pose proof (forallb_proper_names _ Hns' Hp) as Hn.
      exists {| d_root := true; d_ups := 0; d_names := g1 :: gs |}. split; [split; [reflexivity | exact Hn]|].
      unfold canon. cbn [d_root d_ups d_names repeat app].
      rewrite render_rooted by (apply Forall_map; eapply Forall_impl; [|exact Hn]; intros a Ha; exact Ha).
      rewrite map_map. cbn [comp_str]. rewrite map_id. rewrite <- Hj.
      rewrite join_names_cons by discriminate. reflexivity.
  - apply orb_true_iff in H as [H|H].
    + apply str_eqb_eq in H. subst t. exists {| d_root := false; d_ups := 0; d_names := [] |}.
      split; [split; [reflexivity | constructor] | reflexivity].
    + destruct (drop_dotdots_split ((ch :: g) :: gs)) as [k Hk].
      set (ns := drop_dotdots ((ch :: g) :: gs)) in *.
      assert (Hnn : Forall noslash ns).
      { rewrite Hk in Hns. apply Forall_app in Hns as [_ Hns]. exact Hns. }
      pose proof (forallb_proper_names _ Hnn H) as Hn.
      exists {| d_root := false; d_ups := k; d_names := ns |}. split; [split; [discriminate | exact Hn]|].
      unfold canon. cbn [d_root d_ups d_names app].
      assert (HN : Forall nonroot_ok (repeat CParent k ++ map CNormal ns)).
      { apply Forall_app; split.
        - apply Forall_forall. intros c Hc. apply repeat_spec in Hc. subst. exact I.
        - apply Forall_map. eapply Forall_impl; [|exact Hn]. intros a Ha. exact Ha. }
      destruct (repeat CParent k ++ map CNormal ns) as [|c l] eqn:E.
      * exfalso. destruct k; [|discriminate]. destruct ns; [|discriminate]. simpl in Hk. discriminate.
      * rewrite render_unrooted by (try discriminate; assumption).
        rewrite <- E, map_comp_str_body, <- Hk. symmetry. exact Hj.
Qed.

(* T3b: a path in normal form is a fixed point of clean *)
Lemma normal_form_fixed t : NormalForm t -> clean_spec t = t.
Proof.
  intros H. destruct (normal_form_is_canon t H) as (d & Hd & ->). apply clean_spec_render_canon. exact Hd.
Qed.

(* T3c: uniqueness — any normal-form path lexically equivalent to s is the one clean returns *)
Lemma clean_unique s t : lex_equiv s t -> NormalForm t -> t = clean_spec s.
Proof.
  intros He Hn. rewrite <- (normal_form_fixed t Hn). unfold clean_spec, lex_equiv in *. rewrite He. reflexivity.
Qed.

(* non-vacuity: the hypotheses of clean_unique are satisfiable on a non-trivial instance *)
Example clean_unique_instance :
  let s := [47; 97; 47; 46; 47; 46; 46; 47; 47; 98; 47]%N in   (* "/a/./..//b/" *)
  let t := [47; 98]%N in                                        (* "/b" *)
  lex_equiv s t /\ NormalForm t /\ clean s = Done t.
Proof. repeat split; vm_compute; reflexivity. Qed.

(* Path/CleanFacts.v — proofs for C14: the mirror of sys::clean computes the canonical rendering
   of the path's denotation; normal form, uniqueness, idempotence, absoluteness, non-emptiness. *)
From Coq Require Import List NArith Bool Lia Arith.
Import ListNotations.
From RV Require Import Base.Str Base.PathLex Path.Clean Path.CleanSpec.

(* ------------------------------------------------------------------------------------------ *)
(* shape of `components s`: an optional CRoot or CCur head, then only CParent / CNormal *)
Definition tail_ok (cs : list comp) : Prop :=
  Forall (fun c => match c with CRoot | CCur => False | _ => True end) cs.

Lemma seg_comp_false_tail g : tail_ok (seg_comp false g).
Proof.
  unfold tail_ok. destruct g as [|a [|b [|c g]]]; simpl; try constructor; try exact I; try constructor.
  - destruct (N.eqb a dot); constructor; try exact I; constructor.
  - destruct (N.eqb a dot && N.eqb b dot); constructor; try exact I; constructor.
Qed.

Lemma flat_map_tail gs : tail_ok (flat_map (seg_comp false) gs).
Proof.
  induction gs as [|g gs IH]; simpl; [constructor|].
  apply Forall_app; split; [apply seg_comp_false_tail | exact IH].
Qed.

Lemma seg_comp_true_shape g : seg_comp true g = [CCur] \/ seg_comp true g = seg_comp false g.
Proof.
  destruct g as [|a [|b [|c g]]]; simpl; auto. destruct (N.eqb a dot); auto.
Qed.

Lemma components_shape s :
  exists hd tl, components s = hd ++ tl /\ tail_ok tl /\ (hd = [] \/ hd = [CRoot] \/ hd = [CCur]).
Proof.
  unfold components. destruct (split s) as [|g gs] eqn:E.
  - exists [], []. repeat split; [constructor | auto].
  - destruct (is_rooted s); simpl.
    + exists [CRoot], (seg_comp false g ++ flat_map (seg_comp false) gs). repeat split; auto.
      apply Forall_app; split; [apply seg_comp_false_tail | apply flat_map_tail].
    + destruct (seg_comp_true_shape g) as [H|H]; rewrite H.
      * exists [CCur], (flat_map (seg_comp false) gs). repeat split; auto. apply flat_map_tail.
      * exists [], (seg_comp false g ++ flat_map (seg_comp false) gs). repeat split; auto.
        apply Forall_app; split; [apply seg_comp_false_tail | apply flat_map_tail].
Qed.

(* ------------------------------------------------------------------------------------------ *)
(* the loop invariant: buf = body r ups rn, cnt = length buf, prev = last of buf *)
Definition body (r : bool) (ups : nat) (rn : list str) : list comp :=
  (if r then [CRoot] else []) ++ repeat CParent ups ++ map CNormal (rev rn).

Lemma lastc_app b c : lastc (b ++ [c]) = Some c.
Proof. unfold lastc. rewrite rev_app_distr. reflexivity. Qed.

Lemma repeat_snoc {A} (x : A) n : repeat x n ++ [x] = x :: repeat x n.
Proof. induction n; simpl; [reflexivity| rewrite IHn; reflexivity]. Qed.

Lemma body_snoc_parent k : body false (S k) [] = body false k [] ++ [CParent].
Proof.
  unfold body. cbn [app rev map]. rewrite !app_nil_r. cbn [repeat]. symmetry. apply repeat_snoc.
Qed.

Lemma body_snoc_name r ups n rn : body r ups (n :: rn) = body r ups rn ++ [CNormal n].
Proof. unfold body. cbn [rev]. rewrite map_app. cbn. rewrite !app_assoc. reflexivity. Qed.

Lemma loop_spec t : tail_ok t -> forall r ups rn,
  (r = true -> ups = 0) ->
  clean_loop t (length (body r ups rn)) (lastc (body r ups rn)) (body r ups rn)
  = Done (let d := den_go t r ups rn in body (d_root d) (d_ups d) (rev (d_names d))).
Proof.
  induction 1 as [|c t Hc Ht IH]; intros r ups rn Hr; cbn [clean_loop den_go].
  - simpl. rewrite rev_involutive. reflexivity.
  - destruct c as [| | |n]; try contradiction.
    + (* CParent *)
      destruct rn as [|n rn].
      * destruct r.
        -- rewrite (Hr eq_refl). cbn. specialize (IH true 0 [] (fun _ => eq_refl)). cbn in IH. exact IH.
        -- destruct ups as [|ups].
           ++ cbn. specialize (IH false 1 [] (fun H => ltac:(discriminate))). cbn in IH. exact IH.
           ++ rewrite (body_snoc_parent ups), lastc_app. cbn [opt_is_parent negb andb].
              rewrite app_length. cbn [length].
              replace (Nat.eqb (length (body false ups []) + 1) 0) with false by (symmetry; apply Nat.eqb_neq; lia).
              cbn [negb andb].
              specialize (IH false (S (S ups)) [] (fun H => ltac:(discriminate))).
              rewrite (body_snoc_parent (S ups)), (body_snoc_parent ups) in IH.
              rewrite lastc_app, !app_length in IH. cbn [length] in IH.
              unfold cpush.
              replace (S (length (body false ups []) + 1)) with (length (body false ups []) + 1 + 1) by lia.
              exact IH.
      * rewrite body_snoc_name, lastc_app, removelast_last. cbn [opt_is_parent negb andb].
        replace (Nat.eqb (length (body r ups rn ++ [CNormal n])) 0) with false
          by (rewrite app_length; cbn; symmetry; apply Nat.eqb_neq; lia).
        cbn [negb andb]. rewrite app_length. cbn [length].
        replace (length (body r ups rn) + 1 - 1) with (length (body r ups rn)) by lia.
        apply IH; assumption.
    + (* CNormal *)
      assert (Hb : cpush (body r ups rn) (CNormal n) = body r ups (n :: rn))
        by (rewrite body_snoc_name; reflexivity).
      rewrite Hb. specialize (IH r ups (n :: rn) Hr). cbv zeta in IH |- *.
      rewrite <- IH. f_equal.
      * rewrite body_snoc_name, app_length. cbn. lia.
      * rewrite body_snoc_name, lastc_app. reflexivity.
Qed.

Lemma body_canon d : canon d = match body (d_root d) (d_ups d) (rev (d_names d)) with [] => [CCur] | l => l end.
Proof. unfold canon, body. rewrite rev_involutive. reflexivity. Qed.

Lemma clean_comps_spec cs :
  (exists hd tl, cs = hd ++ tl /\ tail_ok tl /\ (hd = [] \/ hd = [CRoot] \/ hd = [CCur])) ->
  clean_comps cs = Done (canon (denote cs)).
Proof.
  intros (hd & tl & -> & Ht & Hhd). destruct Hhd as [Hhd|[Hhd|Hhd]]; subst hd; unfold clean_comps, denote; cbn [app clean_loop den_go Nat.eqb].
  - pose proof (loop_spec tl Ht false 0 [] (fun _ => eq_refl)) as H. cbn in H. rewrite H.
    rewrite body_canon. cbn. destruct (body _ _ _); reflexivity.
  - pose proof (loop_spec tl Ht true 0 [] (fun _ => eq_refl)) as H. cbn in H. cbn. rewrite H.
    rewrite body_canon. cbn. destruct (body _ _ _); reflexivity.
  - pose proof (loop_spec tl Ht false 0 [] (fun _ => eq_refl)) as H. cbn in H. rewrite H.
    rewrite body_canon. cbn. destruct (body _ _ _); reflexivity.
Qed.

(* T1: the mirror never panics and returns the canonical rendering of the denotation *)
Lemma clean_is_spec s : clean s = Done (clean_spec s).
Proof.
  unfold clean, clean_spec. rewrite (clean_comps_spec _ (components_shape s)). reflexivity.
Qed.

Lemma clean_total s : clean s <> Panic /\ clean s <> OutOfFuel.
Proof. rewrite clean_is_spec. split; discriminate. Qed.

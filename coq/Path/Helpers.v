(* Path/Helpers.v — mirrors of the lexical helpers of src/sys/fs/path.rs (after the fix: commits
   for trim_prefix/trim_suffix byte offsets and mash): mash, trim_prefix, trim_suffix, trim_ext, ext,
   name, base, dir, first, last, trim_first, trim_last, has, has_prefix, has_suffix, trim_protocol,
   concat, parse_paths, is_empty.  Results: `res A` = Ok value or an error kind. *)
From Coq Require Import List NArith Bool Lia Arith.
Import ListNotations.
From RV Require Import Base.Str Base.PathLex.

Inductive errkind :=
  | EItemNotFound | EParentNotFound | EExtensionNotFound | EEmpty | EInvalidExpansion
  | EMultipleHomeSymbols | EVarNotPresent | EOther
  | EDoesNotExist | EIsNotDir | EIsNotFile | EIsNotSymlink | EDirContainsFiles | EExistsAlready
  | ELinkLooping | EInvalidData
  | EInvChmod | EInvChmodTarget | EInvChmodGroup | EInvChmodOp | EInvChmodPerms.
Definition res (A : Type) := (A + errkind)%type.
Definition Ok {A} (a : A) : res A := inl a.
Definition Err {A} (e : errkind) : res A := inr e.

(* Component::to_string = push of the component on an empty PathBuf *)
Definition comp_to_string (c : comp) : str := comp_str c.

Definition last_opt {A} (l : list A) : option A := match rev l with [] => None | x :: _ => Some x end.

(* base = components().last_result()?.to_string() *)
Definition base (p : str) : res str :=
  match last_opt (components p) with Some c => Ok (comp_to_string c) | None => Err EItemNotFound end.
Definition last (p : str) : res str := base p.

Definition first (p : str) : res str :=
  match components p with c :: _ => Ok (comp_to_string c) | [] => Err EItemNotFound end.

Definition dir (p : str) : res str :=
  match parent p with Some d => Ok d | None => Err EParentNotFound end.

Definition ext (p : str) : res str :=
  match extension p with Some e => Ok e | None => Err EExtensionNotFound end.

(* &base[prefix.len()..] after starts_with: drop the prefix's characters *)
Definition trim_prefix (p prefix : str) : str :=
  if starts_with p prefix then skipn (length prefix) p else p.

Definition trim_suffix (p suffix : str) : str :=
  if ends_with p suffix then firstn (length p - length suffix) p else p.

Definition trim_ext (p : str) : str :=
  match extension p with
  | Some e => trim_suffix p (dot :: e)
  | None => p
  end.

(* name (after its fix): the base name with the extension removed from the base name itself *)
Definition name (p : str) : res str :=
  match base p with
  | inl b => match extension p with
             | Some e => Ok (trim_suffix b (dot :: e))
             | None => Ok b
             end
  | inr e => Err e
  end.

Definition has (p v : str) : bool := contains p v.
Definition has_prefix (p v : str) : bool := starts_with p v.
Definition has_suffix (p v : str) : bool := ends_with p v.

Fixpoint strip_seps (p : str) : str :=
  match p with c :: p' => if N.eqb c slash then strip_seps p' else p | [] => [] end.

(* mash: dir.join(base without leading separators).components().collect() *)
Definition mash (d b : str) : str := render (components (join d (strip_seps b))).

(* components().drop(1).as_path() / drop(-1) *)
Definition trim_first (p : str) : str := as_path_after p 1 0.
Definition trim_last (p : str) : str := as_path_after p 0 1.

Definition concat (p v : str) : str := p ++ v.

Definition is_nil_str (g : str) : bool := match g with [] => true | _ => false end.

Definition parse_paths (v : str) : list str :=
  filter (fun g => negb (is_nil_str g)) (split_on colon v).

Definition is_empty (p : str) : bool := is_nil_str p || match components p with [] => true | _ => false end.

(* str::trim_start_matches(pat): remove the pattern from the start repeatedly *)
Fixpoint trim_start_matches_fuel (fuel : nat) (s pat : str) : str :=
  match fuel with
  | O => s
  | S f => match pat with
           | [] => s
           | _ => if starts_with s pat then trim_start_matches_fuel f (skipn (length pat) s) pat else s
           end
  end.
Definition trim_start_matches (s pat : str) : str := trim_start_matches_fuel (length s) s pat.

Definition s_file : str := [102; 105; 108; 101; 58; 47; 47]%N.       (* "file://"  *)
Definition s_ftp : str := [102; 116; 112; 58; 47; 47]%N.             (* "ftp://"   *)
Definition s_http : str := [104; 116; 116; 112; 58; 47; 47]%N.       (* "http://"  *)
Definition s_https : str := [104; 116; 116; 112; 115; 58; 47; 47]%N. (* "https://" *)

(* trim_protocol: find "//", split_at(i + 2), lower-case the prefix, strip the four schemes in
   turn, drop the prefix iff nothing is left.  `lower` models str::to_lowercase restricted to what
   decides the comparison (ASCII letters; see DESIGN §4.3 and the lowercase stream). *)
Definition trim_protocol (p : str) : str :=
  match find p [slash; slash] with
  | Some i =>
      let prefix := firstn (i + 2) p in
      let suffix := skipn (i + 2) p in
      let lower := map ascii_lower prefix in
      let lower := trim_start_matches lower s_file in
      let lower := trim_start_matches lower s_ftp in
      let lower := trim_start_matches lower s_http in
      let lower := trim_start_matches lower s_https in
      if negb (is_nil_str lower) then prefix ++ suffix else suffix
  | None => p
  end.

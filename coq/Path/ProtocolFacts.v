(* Path/ProtocolFacts.v — trim_protocol in closed form (C15): it removes the text up to and including the first "//"
   exactly when that text, lower-cased, is one of file:// ftp:// http:// https://, and returns the path unchanged
   otherwise. *)
From Coq Require Import List NArith Bool Lia Arith.
Import ListNotations.
From RV Require Import Base.Str Base.PathLex Path.Helpers.

Definition is_scheme (l : str) : bool := str_eqb l s_file || str_eqb l s_ftp || str_eqb l s_http || str_eqb l s_https.

(* find returns the first occurrence *)
Lemma find_from_le pat a : forall b i, exists k, find_from (a ++ pat ++ b) pat i = Some k /\ k <= i + length a.
Proof.
  induction a as [|x a IH]; intros b i.
  - cbn [app]. exists i. split; [|cbn; lia]. destruct (pat ++ b) eqn:E; cbn [find_from]; rewrite <- ?E, starts_with_app; reflexivity.
  - cbn [app find_from]. destruct (starts_with (x :: a ++ pat ++ b) pat); [exists i; split; [reflexivity|cbn; lia]|].
    destruct (IH b (S i)) as (k & Hk & Hle). exists k. split; [exact Hk|cbn; lia].
Qed.

Lemma ascii_lower_slash c : ascii_lower c = slash -> c = slash.
Proof.
  unfold ascii_lower, slash. destruct (N.leb 65 c && N.leb c 90)%bool eqn:E; [|intros H; exact H].
  apply andb_true_iff in E as [E1 E2]. apply N.leb_le in E1, E2. intros H. lia.
Qed.

(* a lower-cased prefix that starts with a scheme IS that scheme, because the prefix ends at the first "//" *)
Lemma prefix_is_scheme p i S0 S1 : find p [slash; slash] = Some i -> S0 = S1 ++ [slash; slash] ->
  starts_with (map ascii_lower (firstn (i + 2) p)) S0 = true -> map ascii_lower (firstn (i + 2) p) = S0.
Proof.
  intros Hf HS Hst. apply starts_with_iff in Hst as [t Ht].
  destruct t as [|c t]; [rewrite app_nil_r in Ht; exact Ht|]. exfalso.
  (* the prefix has "//" at offset length S1, before its end *)
  set (X := firstn (i + 2) p) in *.
  assert (HlenX : length X = length S0 + S (length t)) by (rewrite <- (map_length ascii_lower X), Ht, app_length; reflexivity).
  assert (Hsplit : X = firstn (length S1) X ++ skipn (length S1) X) by (symmetry; apply firstn_skipn).
  assert (Hmid : exists r, skipn (length S1) X = slash :: slash :: r).
  { assert (Hm : skipn (length S1) (map ascii_lower X) = [slash; slash] ++ c :: t).
    { rewrite Ht, HS, <- app_assoc. rewrite skipn_app, skipn_all, Nat.sub_diag. reflexivity. }
    rewrite skipn_map in Hm. destruct (skipn (length S1) X) as [|c1 [|c2 r]]; cbn in Hm; try discriminate.
    injection Hm as H1 H2 _. apply ascii_lower_slash in H1, H2. subst. eauto. }
  destruct Hmid as [r Hr]. rewrite Hr in Hsplit.
  assert (Hp : p = firstn (length S1) X ++ [slash; slash] ++ (r ++ skipn (i + 2) p)).
  { rewrite <- (firstn_skipn (i + 2) p) at 1. fold X. rewrite Hsplit at 1. rewrite <- !app_assoc. reflexivity. }
  destruct (find_from_le [slash; slash] (firstn (length S1) X) (r ++ skipn (i + 2) p) 0) as (k & Hk & Hle).
  rewrite <- Hp in Hk. unfold find in Hf. rewrite Hf in Hk. injection Hk as <-.
  rewrite firstn_length in Hle. cbn in Hle.
  assert (length X <= i + 2) by (unfold X; rewrite firstn_length; lia).
  rewrite HS, app_length in HlenX. cbn [length] in HlenX. lia.
Qed.

Lemma trim_start_matches_nil pat : trim_start_matches [] pat = [].
Proof. reflexivity. Qed.

Lemma trim_start_matches_no L pat : pat <> [] -> starts_with L pat = false -> trim_start_matches L pat = L.
Proof.
  intros Hp Hs. unfold trim_start_matches. destruct (length L) as [|f]; [reflexivity|]. cbn [trim_start_matches_fuel].
  destruct pat; [congruence|]. rewrite Hs. reflexivity.
Qed.

Lemma trim_start_matches_self pat : pat <> [] -> trim_start_matches pat pat = [].
Proof.
  intros Hp. unfold trim_start_matches. destruct pat as [|c pat']; [congruence|].
  assert (Hs : starts_with (c :: pat') (c :: pat') = true) by (apply starts_with_iff; exists []; symmetry; apply app_nil_r).
  change (length (c :: pat')) with (S (length pat')). cbn [trim_start_matches_fuel]. rewrite Hs.
  change (S (length pat')) with (length (c :: pat')). rewrite skipn_all. destruct (length pat'); reflexivity.
Qed.

Theorem trim_protocol_closed p :
  trim_protocol p = match find p [slash; slash] with
                    | Some i => if is_scheme (map ascii_lower (firstn (i + 2) p)) then skipn (i + 2) p else p
                    | None => p
                    end.
Proof.
  unfold trim_protocol. destruct (find p [slash; slash]) as [i|] eqn:Hf; [|reflexivity]. cbn zeta.
  set (L := map ascii_lower (firstn (i + 2) p)).
  assert (Hcase : forall S0 S1, S0 = S1 ++ [slash; slash] -> starts_with L S0 = true -> L = S0)
    by (intros S0 S1 HS Hst; exact (prefix_is_scheme p i S0 S1 Hf HS Hst)).
  unfold is_scheme.
  destruct (starts_with L s_file) eqn:E1.
  { rewrite (Hcase s_file [102; 105; 108; 101; 58]%N eq_refl E1). reflexivity. }
  rewrite (trim_start_matches_no L s_file ltac:(discriminate) E1).
  destruct (starts_with L s_ftp) eqn:E2.
  { rewrite (Hcase s_ftp [102; 116; 112; 58]%N eq_refl E2). reflexivity. }
  rewrite (trim_start_matches_no L s_ftp ltac:(discriminate) E2).
  destruct (starts_with L s_http) eqn:E3.
  { rewrite (Hcase s_http [104; 116; 116; 112; 58]%N eq_refl E3). reflexivity. }
  rewrite (trim_start_matches_no L s_http ltac:(discriminate) E3).
  destruct (starts_with L s_https) eqn:E4.
  { rewrite (Hcase s_https [104; 116; 116; 112; 115; 58]%N eq_refl E4). reflexivity. }
  rewrite (trim_start_matches_no L s_https ltac:(discriminate) E4).
  (* L is none of the four *)
  assert (Hne : forall S0, starts_with L S0 = false -> str_eqb L S0 = false).
  { intros S0 Hs. apply str_eqb_neq. intros ->. rewrite <- (app_nil_r S0) in Hs at 1. rewrite starts_with_app in Hs. discriminate. }
  rewrite (Hne _ E1), (Hne _ E2), (Hne _ E3), (Hne _ E4). cbn [orb].
  destruct L as [|c L'] eqn:EL.
  - (* impossible: the prefix contains "//" *)
    exfalso. subst L. apply (f_equal (@length _)) in EL. rewrite map_length, firstn_length in EL. cbn in EL.
    unfold find in Hf. apply find_from_some in Hf as (a & b & Hp & Hi). rewrite Hp, app_length in EL. cbn in EL. lia.
  - cbn [is_nil_str negb]. apply firstn_skipn.
Qed.

(* Path/Abs.v — mirror of Memfs::_abs and Stdfs::abs (the same text up to the source of cwd):
   empty check, expand, trim_protocol, clean, then the loop peeling "." / ".." against the cwd. *)
From Coq Require Import List NArith Bool Lia Arith.
Import ListNotations.
From RV Require Import Base.Str Base.PathLex Path.Clean Path.Helpers Path.Expand.

(* while let Ok(first) = path_buf.components().first_result() { match first { .. } } return Ok(curr) *)
Fixpoint abs_loop (fuel : nat) (curr path_buf : str) : res str :=
  match fuel with
  | O => Err EOther
  | S f =>
      match components path_buf with
      | [] => Ok curr
      | CCur :: _ => abs_loop f curr (trim_first path_buf)
      | CParent :: _ =>
          if str_eqb curr [slash] then Err EParentNotFound
          else match dir curr with
               | inl d => abs_loop f d (trim_first path_buf)
               | inr e => Err e
               end
      | _ => Ok (mash curr path_buf)
      end
  end.

Definition abs (cwd : str) (env : envmap) (s : str) : res str :=
  if is_empty s then Err EEmpty else
  match expand env s with
  | inr e => Err e
  | inl p =>
      match clean (trim_protocol p) with
      | Done c => if is_absolute c then Ok c else abs_loop (S (length (components c))) cwd c
      | _ => Err EOther
      end
  end.

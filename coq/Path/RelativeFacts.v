(* Path/RelativeFacts.v — proofs for C16. *)
From Coq Require Import List NArith Bool Lia Arith.
Import ListNotations.
From RV Require Import Base.Str Base.PathLex Base.PathLexFacts Path.Clean Path.CleanSpec Path.CleanFacts Path.Relative.

Lemma names_tailc ns : Forall is_name ns -> Forall tailc_ok (map CNormal ns).
Proof. intros H. apply Forall_map. exact H. Qed.

Lemma components_abs_path ns : Forall is_name ns -> components (abs_path ns) = CRoot :: map CNormal ns.
Proof. intros H. apply components_render_rooted. apply names_tailc. exact H. Qed.

Lemma map_CNormal_inj a b : map CNormal a = map CNormal b -> a = b.
Proof.
  revert b; induction a as [|x a IH]; destruct b as [|y b]; simpl; try discriminate; [reflexivity|].
  intros H. injection H as -> H. f_equal. apply IH. exact H.
Qed.

Lemma path_eqb_abs ps bs : Forall is_name ps -> Forall is_name bs ->
  path_eqb (abs_path ps) (abs_path bs) = true <-> ps = bs.
Proof.
  intros Hp Hb. unfold path_eqb. rewrite !components_abs_path by assumption. rewrite comps_eqb_eq. split.
  - intros H. injection H as H. apply map_CNormal_inj. exact H.
  - intros ->. reflexivity.
Qed.

Lemma rel_loop_names ps : forall bs,
  rel_loop (map CNormal ps) (map CNormal bs) [] = relative_spec ps bs.
Proof.
  induction ps as [|p ps IH]; intros bs; unfold relative_spec.
  - cbn [map rel_loop strip_common]. destruct bs; cbn [length map repeat app]; rewrite ?map_length, ?app_nil_r; reflexivity.
  - destruct bs as [|b bs]; [reflexivity|]. cbn [map rel_loop strip_common is_nil comp_eqb andb].
    destruct (str_eqb p b) eqn:E.
    + rewrite IH. reflexivity.
    + cbn [length repeat app map]. rewrite map_length. reflexivity.
Qed.

(* T1: shape — zero or more ".." followed only by normal components *)
Lemma relative_shape ps bs : Forall is_name ps -> Forall is_name bs -> ps <> bs ->
  relative (abs_path ps) (abs_path bs) = render (relative_spec ps bs).
Proof.
  intros Hp Hb Hne. unfold relative.
  destruct (path_eqb (abs_path ps) (abs_path bs)) eqn:E.
  - apply path_eqb_abs in E; [contradiction | assumption | assumption].
  - cbn [negb]. rewrite !components_abs_path by assumption. cbn [rel_loop is_nil comp_eqb andb].
    rewrite rel_loop_names. reflexivity.
Qed.

(* facts about strip_common *)
Lemma strip_common_spec ps bs :
  exists c, ps = c ++ fst (strip_common ps bs) /\ bs = c ++ snd (strip_common ps bs).
Proof.
  revert bs; induction ps as [|p ps IH]; intros bs.
  - exists []. split; reflexivity.
  - destruct bs as [|b bs]; [exists []; split; reflexivity|]. cbn [strip_common].
    destruct (str_eqb p b) eqn:E.
    + apply str_eqb_eq in E. subst b. destruct (IH bs) as (c & H1 & H2). exists (p :: c).
      split; cbn [app]; f_equal; assumption.
    + exists []. split; reflexivity.
Qed.

Lemma strip_common_both_nil ps bs :
  fst (strip_common ps bs) = [] -> snd (strip_common ps bs) = [] -> ps = bs.
Proof.
  intros H1 H2. destruct (strip_common_spec ps bs) as (c & Hp & Hb). rewrite H1 in Hp. rewrite H2 in Hb. congruence.
Qed.

(* denotation of  root / names / k times ".." / rest  when k <= |names| *)
Lemma den_go_pop k : forall t rn, k <= length rn ->
  den_go (repeat CParent k ++ t) true 0 rn = den_go t true 0 (skipn k rn).
Proof.
  induction k as [|k IH]; intros t rn Hk; [reflexivity|].
  destruct rn as [|n rn]; [simpl in Hk; lia|]. cbn [repeat app den_go skipn]. apply IH. simpl in Hk. lia.
Qed.

Lemma relative_spec_tailc ps bs : Forall is_name ps -> Forall tailc_ok (relative_spec ps bs).
Proof.
  intros Hp. unfold relative_spec. destruct (strip_common_spec ps bs) as (c & H1 & _).
  destruct (strip_common ps bs) as [rest below]. cbn [fst] in H1.
  apply Forall_app; split.
  - apply Forall_forall. intros x Hx. apply repeat_spec in Hx. subst. exact I.
  - apply names_tailc. rewrite H1 in Hp. apply Forall_app in Hp as [_ Hp]. exact Hp.
Qed.

Lemma relative_spec_nonempty ps bs : ps <> bs -> relative_spec ps bs <> [].
Proof.
  intros Hne E. unfold relative_spec in E. pose proof (strip_common_both_nil ps bs) as H.
  destruct (strip_common ps bs) as [rest below]. cbn [fst snd] in H.
  apply app_eq_nil in E as [E1 E2]. apply Hne, H.
  - destruct rest; [reflexivity | discriminate].
  - destruct below; [reflexivity | discriminate].
Qed.

(* joining the result onto the base: base ++ "/" ++ rel, as a rooted rendering *)
Lemma join_abs_unrooted bs cs : Forall is_name bs -> cs <> [] -> Forall tailc_ok cs ->
  join (abs_path bs) (render cs) = render (CRoot :: map CNormal bs ++ cs).
Proof.
  intros Hb Hne Hcs.
  assert (Hn1 : Forall nonroot_ok cs) by (eapply Forall_impl; [|exact Hcs]; apply tailc_nonroot).
  assert (Hn2 : Forall nonroot_ok (map CNormal bs ++ cs)).
  { apply Forall_app; split; [|assumption]. apply Forall_map. exact Hb. }
  unfold abs_path. rewrite (render_unrooted cs) by assumption.
  rewrite (render_rooted (map CNormal bs ++ cs)) by assumption.
  rewrite render_rooted by (apply Forall_map; exact Hb).
  assert (Hcs_ne : map comp_str cs <> []) by (destruct cs; [congruence | discriminate]).
  assert (Hr : is_rooted (join_names (map comp_str cs)) = false).
  { destruct cs as [|c cs]; [congruence|]. inversion Hn1 as [|? ? Hc _]; subst.
    destruct (comp_str_nonroot c Hc) as [H1 H2]. cbn [map].
    destruct (comp_str c) as [|ch g] eqn:Ec; [congruence|]. inversion H2; subst.
    destruct (map comp_str cs); simpl; apply N.eqb_neq; assumption. }
  unfold join, push. rewrite Hr. rewrite map_app.
  destruct bs as [|b bs].
  - cbn [map join_names app]. unfold last_char. cbn. reflexivity.
  - assert (HF' : Forall (fun g => g <> [] /\ noslash g) (map comp_str (map CNormal (b :: bs)))).
    { rewrite map_map. apply Forall_map. eapply Forall_impl; [|exact Hb]. intros a (H1 & H2 & _). split; assumption. }
    destruct (join_names_last_noslash (map comp_str (map CNormal (b :: bs))) ltac:(discriminate) HF') as (ch & Hl & Hch).
    change (slash :: join_names (map comp_str (map CNormal (b :: bs))))
      with ([slash] ++ join_names (map comp_str (map CNormal (b :: bs)))).
    rewrite last_char_app_nonempty by (intros E; rewrite E in Hl; discriminate).
    rewrite Hl. destruct (N.eqb_spec ch slash); [contradiction|].
    cbn [app]. f_equal. 
    assert (Hjoin : forall l1 l2, l1 <> [] -> l2 <> [] ->
              join_names (l1 ++ l2) = join_names l1 ++ slash :: join_names l2).
    { induction l1 as [|a l1 IH]; intros l2 H1 H2; [congruence|]. destruct l1 as [|a' l1].
      - cbn [app]. rewrite join_names_cons by assumption. reflexivity.
      - change ((a :: a' :: l1) ++ l2) with (a :: ((a' :: l1) ++ l2)).
        rewrite join_names_cons by discriminate. rewrite IH by (try discriminate; assumption).
        rewrite (join_names_cons a (a' :: l1)) by discriminate. rewrite <- app_assoc. reflexivity. }
    rewrite Hjoin by (try discriminate; assumption). reflexivity.
Qed.

(* T2: cleaning base joined with the result yields path *)
Lemma relative_navigates ps bs : Forall is_name ps -> Forall is_name bs -> ps <> bs ->
  clean (join (abs_path bs) (relative (abs_path ps) (abs_path bs))) = Done (abs_path ps).
Proof.
  intros Hp Hb Hne. rewrite relative_shape by assumption.
  pose proof (relative_spec_tailc ps bs Hp) as Ht. pose proof (relative_spec_nonempty ps bs Hne) as Hn.
  rewrite join_abs_unrooted by assumption. rewrite clean_is_spec. f_equal.
  unfold clean_spec. rewrite components_render_rooted by (apply Forall_app; split; [apply names_tailc|]; assumption).
  unfold relative_spec in *. destruct (strip_common_spec ps bs) as (c & H1 & H2).
  destruct (strip_common ps bs) as [rest below]. cbn [fst snd] in *.
  unfold denote. cbn [den_go].
  assert (Hgo : forall ns t rn, den_go (map CNormal ns ++ t) true 0 rn = den_go t true 0 (rev ns ++ rn)).
  { induction ns as [|n ns IH]; intros t rn; [reflexivity|]. cbn [map app den_go]. rewrite IH.
    cbn [rev]. rewrite <- app_assoc. reflexivity. }
  rewrite Hgo, app_nil_r. rewrite den_go_pop by (rewrite rev_length, H2, app_length; lia).
  rewrite <- (app_nil_r (map CNormal rest)). rewrite Hgo. cbn [den_go].
  unfold abs_path, canon. cbn [d_root d_ups d_names repeat app]. do 2 f_equal.
  rewrite rev_app_distr, rev_involutive. rewrite H2, rev_app_distr.
  rewrite skipn_app. rewrite rev_length. replace (length below - length below) with 0 by lia.
  rewrite skipn_all2 by (rewrite rev_length; lia). cbn [skipn app]. rewrite rev_involutive. rewrite H1. reflexivity.
Qed.

(* T3: the number of ".." is the number of components of base below the common prefix *)
Definition count_parents (cs : list comp) : nat :=
  length (filter (fun c => match c with CParent => true | _ => false end) cs).

Lemma relative_ups ps bs : Forall is_name ps -> Forall is_name bs -> ps <> bs ->
  components (relative (abs_path ps) (abs_path bs)) = relative_spec ps bs /\
  count_parents (relative_spec ps bs) = length (snd (strip_common ps bs)).
Proof.
  intros Hp Hb Hne. rewrite relative_shape by assumption. split.
  - apply components_render_unrooted; [apply relative_spec_nonempty; assumption | apply relative_spec_tailc; assumption].
  - unfold relative_spec, count_parents. destruct (strip_common ps bs) as [rest below]. cbn [snd].
    rewrite filter_app, app_length.
    assert (H1 : forall k, length (filter (fun c => match c with CParent => true | _ => false end) (repeat CParent k)) = k)
      by (induction k; simpl; congruence).
    assert (H2 : forall l, length (filter (fun c => match c with CParent => true | _ => false end) (map CNormal l)) = 0)
      by (induction l; simpl; congruence).
    rewrite H1, H2. lia.
Qed.

(* T4: the result is a relative path *)
Lemma relative_is_relative ps bs : Forall is_name ps -> Forall is_name bs -> ps <> bs ->
  is_absolute (relative (abs_path ps) (abs_path bs)) = false.
Proof.
  intros Hp Hb Hne. rewrite relative_shape by assumption.
  pose proof (relative_spec_tailc ps bs Hp) as Ht. pose proof (relative_spec_nonempty ps bs Hne) as Hn.
  unfold is_absolute. destruct (is_rooted (render (relative_spec ps bs))) eqn:E; [|reflexivity].
  pose proof (components_render_unrooted _ Hn Ht) as Hc.
  unfold components in Hc. rewrite E in Hc. destruct (split (render (relative_spec ps bs))); [symmetry in Hc; contradiction|].
  cbn [app] in Hc. rewrite <- Hc in Ht. inversion Ht as [|? ? Hbad _]. contradiction.
Qed.

(* T5: for path == base the path itself is returned, and joining it onto base still yields path *)
Lemma relative_same ps : Forall is_name ps ->
  relative (abs_path ps) (abs_path ps) = abs_path ps /\ join (abs_path ps) (abs_path ps) = abs_path ps.
Proof.
  intros Hp. split.
  - unfold relative. assert (E : path_eqb (abs_path ps) (abs_path ps) = true) by (apply path_eqb_abs; auto). rewrite E. reflexivity.
  - unfold join, push, abs_path. rewrite render_rooted by (apply Forall_map; exact Hp). cbn [is_rooted]. reflexivity.
Qed.

Example relative_instance :
  let a := [97]%N in let b := [98]%N in let c := [99]%N in
  relative (abs_path [a; b]) (abs_path [a; c; c]) = [46; 46; 47; 46; 46; 47; 98]%N.   (* "../../b" *)
Proof. vm_compute. reflexivity. Qed.

(* Path/Relative.v — mirror of rivia::sys::relative (src/sys/fs/path.rs) and its specification. *)
From Coq Require Import List NArith Bool Lia Arith.
Import ListNotations.
From RV Require Import Base.Str Base.PathLex.

Definition is_nil {A} (l : list A) : bool := match l with [] => true | _ => false end.

(* the `loop { match (x.next(), y.next()) {..} }` of relative():
     (None, None)              => break
     (None, Some _)            => comps.push(ParentDir)                    [and so on until y ends]
     (Some a, None)            => comps.push(a); comps.extend(x); break
     (Some a, Some b) if comps.is_empty() && a == b => continue
     (Some a, Some _)          => push ParentDir; one more per remaining y; push a; extend x; break *)
Fixpoint rel_loop (x y : list comp) (comps : list comp) {struct x} : list comp :=
  match x with
  | [] => comps ++ repeat CParent (length y)
  | a :: x' =>
      match y with
      | [] => comps ++ a :: x'
      | b :: y' =>
          if is_nil comps && comp_eqb a b then rel_loop x' y' comps
          else comps ++ [CParent] ++ repeat CParent (length y') ++ a :: x'
      end
  end.

Definition relative (path base : str) : str :=
  if negb (path_eqb path base)
  then render (rel_loop (components path) (components base) [])
  else path.

(* ---- specification for clean absolute paths, given by their name lists ---- *)
Definition abs_path (ns : list str) : str := render (CRoot :: map CNormal ns).

Fixpoint strip_common (ps bs : list str) : list str * list str :=
  match ps, bs with
  | p :: ps', b :: bs' => if str_eqb p b then strip_common ps' bs' else (ps, bs)
  | _, _ => (ps, bs)
  end.

(* number of ".." = components of base below the common prefix; then the rest of path *)
Definition relative_spec (ps bs : list str) : list comp :=
  let '(rest, below) := strip_common ps bs in
  repeat CParent (length below) ++ map CNormal rest.

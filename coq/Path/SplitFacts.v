(* Path/SplitFacts.v — the component-splitting helpers on ARBITRARY strings (C15): trim_last / dir drop exactly the last
   component, trim_first drops exactly the first, base / last / first name exactly that component - whatever repeated
   separators, "." segments or trailing separators the string contains. *)
From Coq Require Import List NArith Bool Lia Arith.
Import ListNotations.
From RV Require Import Base.Str Base.PathLex Base.PathLexFacts Base.SpanFacts Path.Helpers.

(* components of a list of raw segments *)
Fixpoint cs_of (fu : bool) (gs : list str) : list comp :=
  match gs with [] => [] | g :: gs' => seg_comp fu g ++ cs_of false gs' end.

Lemma cs_of_false gs : cs_of false gs = flat_map (seg_comp false) gs.
Proof. induction gs as [|g gs IH]; [reflexivity|]. cbn. rewrite IH. reflexivity. Qed.

Lemma components_cs s : components s = (if is_rooted s then [CRoot] else []) ++ cs_of (negb (is_rooted s)) (split s).
Proof.
  unfold components. pose proof (split_nonempty s) as Hne. destruct (split s) as [|g gs]; [congruence|].
  cbn [cs_of]. rewrite cs_of_false. reflexivity.
Qed.

Lemma seg_comp_le1 fu g : seg_comp fu g = [] \/ exists c, seg_comp fu g = [c].
Proof.
  destruct g as [|d1 [|d2 [|d3 g]]]; cbn; [left; reflexivity| | |right; eexists; reflexivity].
  - destruct (N.eqb d1 dot); [destruct fu; [right; eexists; reflexivity|left; reflexivity]|right; eexists; reflexivity].
  - destruct (N.eqb d1 dot && N.eqb d2 dot); right; eexists; reflexivity.
Qed.

Lemma seg_spans_fst gs : forall pos fu, map fst (seg_spans gs pos fu) = cs_of fu gs.
Proof.
  induction gs as [|g gs IH]; intros pos fu; [reflexivity|]. cbn [seg_spans cs_of]. rewrite map_app, IH.
  destruct (seg_comp_le1 fu g) as [->|[c ->]]; reflexivity.
Qed.

Lemma spans_comps s : map fst (spans s) = components s.
Proof.
  unfold spans. rewrite map_app, seg_spans_fst, components_cs. destruct (is_rooted s); reflexivity.
Qed.

Lemma seg_comp_produces_nonempty fu g : seg_comp fu g <> [] -> g <> [].
Proof. destruct g; [cbn; intros H; exfalso; apply H; reflexivity|discriminate]. Qed.

(* a producing segment under flag false yields the same component under flag true *)
Lemma seg_comp_false_true g : seg_comp false g <> [] -> seg_comp true g = seg_comp false g.
Proof.
  destruct g as [|d1 [|d2 [|d3 g]]]; cbn; try reflexivity. destruct (N.eqb d1 dot); [intros H; congruence|reflexivity].
Qed.

(* ---- cutting the span list at its last span ---- *)
Lemma seg_spans_prefix gs : forall pos fu sp1 lst, seg_spans gs pos fu = sp1 ++ [lst] -> sp1 <> [] ->
  exists gs1 gs2, gs = gs1 ++ gs2 /\ gs1 <> [] /\ seg_spans gs1 pos fu = sp1 /\ last_end sp1 = pos + length (join_names gs1).
Proof.
  induction gs as [|g gs IH]; intros pos fu sp1 lst Hs Hne.
  - cbn in Hs. destruct sp1; discriminate.
  - cbn [seg_spans] in Hs. destruct (seg_comp fu g) as [|c cs'] eqn:Ec; cbn [app] in Hs.
    + destruct (IH _ _ _ _ Hs Hne) as (gs1 & gs2 & -> & Hn1 & Hsp & Hle).
      exists (g :: gs1), gs2. split; [reflexivity|]. split; [discriminate|]. split.
      * cbn [seg_spans]. rewrite Ec. exact Hsp.
      * rewrite Hle. rewrite join_names_cons by assumption. rewrite app_length. cbn [length]. lia.
    + destruct sp1 as [|x sp1']; [congruence|]. cbn [app] in Hs. injection Hs as Hx Hs'.
      destruct sp1' as [|y sp1''].
      * exists [g], gs. split; [reflexivity|]. split; [discriminate|]. split.
        -- cbn [seg_spans]. rewrite Ec. cbn [app]. rewrite <- Hx. reflexivity.
        -- subst x. unfold last_end. cbn. lia.
      * destruct (IH _ _ _ _ Hs' ltac:(discriminate)) as (gs1 & gs2 & -> & Hn1 & Hsp & Hle).
        exists (g :: gs1), gs2. split; [reflexivity|]. split; [discriminate|]. split.
        -- cbn [seg_spans]. rewrite Ec. cbn [app]. rewrite Hsp, Hx. reflexivity.
        -- rewrite last_end_cons by discriminate. rewrite Hle. rewrite join_names_cons by assumption.
           rewrite app_length. cbn [length]. lia.
Qed.

Lemma firstn_join ns ms : ns <> [] -> firstn (length (join_names ns)) (join_names (ns ++ ms)) = join_names ns.
Proof.
  intros Hn. destruct ms as [|m ms]; [rewrite app_nil_r; apply firstn_all|]. apply firstn_join_prefix; [assumption|discriminate].
Qed.

Lemma Forall_app_l {A} (P : A -> Prop) l1 l2 : Forall P (l1 ++ l2) -> Forall P l1.
Proof. intros H. apply Forall_app in H. tauto. Qed.
Lemma Forall_app_r {A} (P : A -> Prop) l1 l2 : Forall P (l1 ++ l2) -> Forall P l2.
Proof. intros H. apply Forall_app in H. tauto. Qed.

Lemma removelast_snoc {A} (l : list A) x : removelast (l ++ [x]) = l.
Proof. apply removelast_last. Qed.

Lemma is_rooted_join_cons g gs : is_rooted (join_names (g :: gs)) = match g with [] => negb (match gs with [] => true | _ => false end) | c :: _ => N.eqb c slash end.
Proof.
  destruct gs as [|g' gs].
  - cbn. destruct g; reflexivity.
  - rewrite join_names_cons by discriminate. destruct g as [|c g]; cbn; reflexivity.
Qed.

Lemma noslash_head_not_slash c g : noslash (c :: g) -> N.eqb c slash = false.
Proof. intros H. inversion H; subst. apply N.eqb_neq. assumption. Qed.

Lemma split_prefix_noslash s gs1 gs2 : split s = gs1 ++ gs2 -> Forall noslash gs1.
Proof. intros H. pose proof (split_all_noslash s) as Ha. rewrite H in Ha. apply Forall_app_l in Ha. exact Ha. Qed.

(* components of a non-empty prefix of the segment list *)
Lemma components_join_prefix s gs1 gs2 : split s = gs1 ++ gs2 -> gs1 <> [] ->
  (is_rooted s = true -> gs1 <> [[]]) ->
  components (join_names gs1) = (if is_rooted s then [CRoot] else []) ++ cs_of (negb (is_rooted s)) gs1.
Proof.
  intros Hsp Hne Hr. pose proof (split_prefix_noslash s gs1 gs2 Hsp) as Hns.
  rewrite components_cs. rewrite (split_join gs1 Hns Hne).
  assert (Heq : is_rooted (join_names gs1) = is_rooted s); [|rewrite Heq; reflexivity].
  rewrite <- (join_split s), Hsp. destruct gs1 as [|g gs1']; [congruence|]. cbn [app].
  rewrite !is_rooted_join_cons. destruct g as [|c g]; [|reflexivity].
  destruct gs1' as [|g' gs1'']; [|reflexivity]. cbn [app].
  destruct gs2 as [|g2 gs2']; [reflexivity|]. exfalso. apply Hr; [|reflexivity].
  rewrite <- (join_split s), Hsp. reflexivity.
Qed.

Lemma components_nil : components [] = [].
Proof. reflexivity. Qed.

Lemma rooted_first_seg s g gs : split s = g :: gs -> is_rooted s = true -> g = [].
Proof.
  intros Hsp Hr. rewrite <- (join_split s), Hsp in Hr. rewrite is_rooted_join_cons in Hr.
  destruct g as [|c g]; [reflexivity|]. pose proof (split_all_noslash s) as Ha. rewrite Hsp in Ha. inversion Ha; subst.
  rewrite (noslash_head_not_slash c g) in Hr by assumption. discriminate.
Qed.

(* trim_last drops exactly the last component *)
Theorem trim_last_components s : components (trim_last s) = removelast (components s).
Proof.
  unfold trim_last. rewrite <- (spans_comps s).
  destruct (spans s) as [|x0 sp0] eqn:Hsp0.
  - unfold as_path_after. rewrite Hsp0. reflexivity.
  - destruct (exists_last (l := x0 :: sp0) ltac:(discriminate)) as (sp1 & lst & Hsp). rewrite Hsp.
    rewrite map_app. cbn [map]. rewrite removelast_snoc.
    destruct sp1 as [|x sp1'].
    + (* a single component *)
      unfold as_path_after. rewrite Hsp0, Hsp. reflexivity.
    + rewrite <- Hsp0 in Hsp. rewrite (as_path_after_back1 s (x :: sp1') lst Hsp ltac:(discriminate)).
      unfold spans in Hsp. destruct (is_rooted s) eqn:Hr; cbn [app negb] in Hsp.
      * injection Hsp as Hx Hsp'. subst x. destruct sp1' as [|y sp1''].
        -- (* only the root is left *)
           unfold last_end. cbn [rev app]. destruct s as [|c t]; [discriminate|]. cbn in Hr. apply N.eqb_eq in Hr. subst c. reflexivity.
        -- destruct (seg_spans_prefix _ _ _ _ _ Hsp' ltac:(discriminate)) as (gs1 & gs2 & Hgs & Hn1 & Hsp1 & Hle).
           rewrite last_end_cons by discriminate. rewrite Hle. cbn [Nat.add].
           rewrite <- (join_split s) at 1. rewrite Hgs, (firstn_join gs1 gs2 Hn1).
           rewrite (components_join_prefix s gs1 gs2 Hgs Hn1).
           ++ rewrite Hr. cbn [app negb]. change (map fst ((CRoot, (0, 1)) :: y :: sp1'')) with (CRoot :: map fst (y :: sp1'')).
              rewrite <- Hsp1, seg_spans_fst. reflexivity.
           ++ intros _ ->. cbn in Hsp1. discriminate.
      * change (x :: sp1' ++ [lst]) with ((x :: sp1') ++ [lst]) in Hsp.
        destruct (seg_spans_prefix _ _ _ _ _ Hsp ltac:(discriminate)) as (gs1 & gs2 & Hgs & Hn1 & Hsp1 & Hle).
        rewrite Hle. cbn [Nat.add]. rewrite <- (join_split s) at 1. rewrite Hgs, (firstn_join gs1 gs2 Hn1).
        rewrite (components_join_prefix s gs1 gs2 Hgs Hn1) by (rewrite Hr; discriminate).
        rewrite Hr. cbn [app negb]. rewrite <- Hsp1, seg_spans_fst. reflexivity.
Qed.

(* ---- dir / base ---- *)
Lemma seg_spans_no_root gs : forall pos fu c x, In (c, x) (seg_spans gs pos fu) -> c <> CRoot.
Proof.
  induction gs as [|g gs IH]; intros pos fu c x Hin; [contradiction|]. cbn [seg_spans] in Hin. apply in_app_or in Hin as [Hin|Hin].
  - destruct (seg_comp fu g) as [|c' cs] eqn:Ec; [contradiction|]. destruct Hin as [Hin|[]]. injection Hin as <- _.
    destruct g as [|d1 [|d2 [|d3 g]]]; cbn in Ec; try discriminate.
    + destruct (N.eqb d1 dot); [destruct fu; [|discriminate]|]; injection Ec as <- _; discriminate.
    + destruct (N.eqb d1 dot && N.eqb d2 dot); injection Ec as <- _; discriminate.
    + injection Ec as <- _. discriminate.
  - eapply IH. exact Hin.
Qed.

Theorem dir_components p d : dir p = Ok d -> components d = removelast (components p).
Proof.
  unfold dir, parent. destruct (rev (spans p)) as [|[c x] r]; [discriminate|].
  destruct c; try discriminate; intros H; injection H as <-; apply trim_last_components.
Qed.

Lemma last_opt_snoc {A} (l : list A) x : last_opt (l ++ [x]) = Some x.
Proof. unfold last_opt. rewrite rev_app_distr. reflexivity. Qed.

(* dir and base split the path into everything but its last component, and that component *)
Theorem dir_base_split p d : dir p = Ok d ->
  exists c, components p = components d ++ [c] /\ base p = Ok (comp_str c) /\ c <> CRoot.
Proof.
  intros Hd. pose proof (dir_components p d Hd) as Hc. unfold dir, parent in Hd.
  destruct (rev (spans p)) as [|[c x] r] eqn:Er; [discriminate|].
  assert (Hsp : spans p = rev r ++ [(c, x)]) by (rewrite <- (rev_involutive (spans p)), Er; reflexivity).
  assert (Hcs : components p = map fst (rev r) ++ [c]) by (rewrite <- spans_comps, Hsp, map_app; reflexivity).
  exists c. rewrite Hc, Hcs, removelast_snoc. split; [reflexivity|]. split.
  - unfold base. rewrite Hcs, last_opt_snoc. reflexivity.
  - intros ->. discriminate.
Qed.

(* dir fails exactly on the empty path and on the root *)
Theorem dir_fails p : dir p = Err EParentNotFound <-> (components p = [] \/ components p = [CRoot]).
Proof.
  unfold dir, parent. rewrite <- spans_comps. split.
  - destruct (rev (spans p)) as [|[c x] r] eqn:Er.
    + intros _. left. rewrite <- (rev_involutive (spans p)), Er. reflexivity.
    + destruct c; try discriminate. intros _. right.
      assert (Hsp : spans p = rev r ++ [(CRoot, x)]) by (rewrite <- (rev_involutive (spans p)), Er; reflexivity).
      destruct (rev r) as [|z zs]; [rewrite Hsp; reflexivity|]. exfalso.
      unfold spans in Hsp. destruct (is_rooted p); cbn [app] in Hsp.
      * injection Hsp as _ Hsp.
        assert (Hin : In (CRoot, x) (zs ++ [(CRoot, x)])) by (apply in_or_app; right; left; reflexivity).
        rewrite <- Hsp in Hin. exact (seg_spans_no_root _ _ _ _ _ Hin eq_refl).
      * assert (Hin : In (CRoot, x) (z :: zs ++ [(CRoot, x)])) by (right; apply in_or_app; right; left; reflexivity).
        rewrite <- Hsp in Hin. exact (seg_spans_no_root _ _ _ _ _ Hin eq_refl).
  - intros [H|H].
    + destruct (spans p); [reflexivity|discriminate].
    + destruct (spans p) as [|[c x] [|y ys]]; try discriminate. cbn in H. injection H as ->. reflexivity.
Qed.

(* ---- trim_first ---- *)
Lemma seg_spans_app gs1 : forall gs2 pos fu, gs1 <> [] ->
  seg_spans (gs1 ++ gs2) pos fu = seg_spans gs1 pos fu ++ seg_spans gs2 (pos + length (join_names gs1) + 1) false.
Proof.
  induction gs1 as [|g gs1 IH]; intros gs2 pos fu Hne; [congruence|]. cbn [app seg_spans]. rewrite <- app_assoc. f_equal.
  destruct gs1 as [|g' gs1'].
  - cbn [app seg_spans join_names]. reflexivity.
  - rewrite (IH gs2 _ false ltac:(discriminate)). f_equal. f_equal. rewrite (join_names_cons g (g' :: gs1')) by discriminate.
    rewrite app_length. cbn [length]. lia.
Qed.

(* the segments before the first span produce nothing *)
Lemma junk_prefix gs : forall pos fu, seg_spans gs pos fu <> [] ->
  exists gs0 g gs', gs = gs0 ++ g :: gs' /\ seg_spans gs0 pos fu = [] /\
    seg_comp (match gs0 with [] => fu | _ => false end) g <> [].
Proof.
  induction gs as [|g gs IH]; intros pos fu Hne; [cbn in Hne; congruence|].
  cbn [seg_spans] in Hne. destruct (seg_comp fu g) as [|c cs] eqn:Ec.
  - cbn [app] in Hne. destruct (IH _ _ Hne) as (gs0 & g' & gs' & -> & Hj & Hp).
    exists (g :: gs0), g', gs'. split; [reflexivity|]. split.
    + cbn [seg_spans]. rewrite Ec. exact Hj.
    + destruct gs0; exact Hp.
  - exists [], g, gs. split; [reflexivity|]. split; [reflexivity|]. rewrite Ec. discriminate.
Qed.

Lemma seg_spans_last gs : forall pos fu, seg_spans gs pos fu <> [] ->
  exists gs1 gs2, gs = gs1 ++ gs2 /\ gs1 <> [] /\ seg_spans gs1 pos fu = seg_spans gs pos fu /\
    last_end (seg_spans gs pos fu) = pos + length (join_names gs1).
Proof.
  induction gs as [|g gs IH]; intros pos fu Hne; [cbn in Hne; congruence|].
  cbn [seg_spans] in *. destruct (seg_comp fu g) as [|c cs] eqn:Ec; cbn [app] in *.
  - destruct (IH _ _ Hne) as (gs1 & gs2 & -> & Hn1 & Hsp & Hle).
    exists (g :: gs1), gs2. split; [reflexivity|]. split; [discriminate|]. split.
    + cbn [seg_spans]. rewrite Ec. exact Hsp.
    + rewrite Hle. rewrite join_names_cons by assumption. rewrite app_length. cbn [length]. lia.
  - destruct (seg_spans gs (pos + length g + 1) false) as [|y ys] eqn:Er.
    + exists [g], gs. split; [reflexivity|]. split; [discriminate|]. split.
      * cbn [seg_spans]. rewrite Ec. reflexivity.
      * unfold last_end. cbn. lia.
    + destruct (IH (pos + length g + 1) false ltac:(rewrite Er; discriminate)) as (gs1 & gs2 & -> & Hn1 & Hsp & Hle).
      exists (g :: gs1), gs2. split; [reflexivity|]. split; [discriminate|]. split.
      * cbn [seg_spans]. rewrite Ec. cbn [app]. rewrite Hsp, Er. reflexivity.
      * rewrite last_end_cons by discriminate. rewrite <- Er, Hle. rewrite join_names_cons by assumption.
        rewrite app_length. cbn [length]. lia.
Qed.

Lemma substr_join A M Z : A <> [] -> M <> [] ->
  substr (join_names (A ++ M ++ Z)) (length (join_names A) + 1) (length (join_names A) + 1 + length (join_names M)) = join_names M.
Proof.
  intros HA HM. unfold substr. assert (HMZ : M ++ Z <> []) by (destruct M; [congruence|discriminate]).
  rewrite (join_names_app A (M ++ Z) HA HMZ).
  replace (length (join_names A) + 1 + length (join_names M) - (length (join_names A) + 1)) with (length (join_names M)) by lia.
  replace (length (join_names A) + 1) with (length (join_names A ++ [slash])) by (rewrite app_length; reflexivity).
  change (join_names A ++ slash :: join_names (M ++ Z)) with (join_names A ++ [slash] ++ join_names (M ++ Z)).
  rewrite app_assoc, skipn_app, skipn_all, Nat.sub_diag. cbn [app skipn]. apply firstn_join. assumption.
Qed.

Lemma first_start_seg_spans g rest pos fu : seg_comp fu g <> [] -> first_start (seg_spans (g :: rest) pos fu) = pos.
Proof. intros H. cbn [seg_spans]. destruct (seg_comp fu g); [congruence|]. reflexivity. Qed.

(* the slice from the first span of a suffix of the segment list to its last span *)
Lemma middle s A g rest : split s = A ++ g :: rest -> A <> [] -> seg_comp false g <> [] ->
  let sp2 := seg_spans (g :: rest) (length (join_names A) + 1) false in
  components (substr s (first_start sp2) (last_end sp2)) = map fst sp2.
Proof.
  intros Hsp HA Hg sp2.
  assert (Hne : sp2 <> []) by (subst sp2; cbn [seg_spans]; destruct (seg_comp false g); [congruence|discriminate]).
  destruct (seg_spans_last (g :: rest) (length (join_names A) + 1) false Hne) as (M & Z & HMZ & HM & HspM & Hle).
  fold sp2 in HspM, Hle. rewrite Hle. unfold sp2 at 1. rewrite (first_start_seg_spans g rest _ false Hg).
  rewrite <- (join_split s), Hsp, HMZ. rewrite (substr_join A M Z HA HM).
  destruct M as [|g0 M']; [congruence|]. cbn [app] in HMZ. injection HMZ as <- Hrest.
  assert (Hns : Forall noslash (g :: M')).
  { pose proof (split_all_noslash s) as Ha. rewrite Hsp, Hrest in Ha. apply Forall_app_r in Ha.
    change (g :: M' ++ Z) with ((g :: M') ++ Z) in Ha. apply Forall_app_l in Ha. exact Ha. }
  rewrite components_cs, (split_join (g :: M') Hns ltac:(discriminate)).
  assert (Hr : is_rooted (join_names (g :: M')) = false).
  { rewrite is_rooted_join_cons. destruct g as [|c g']; [exfalso; apply Hg; reflexivity|]. inversion Hns; subst. eapply noslash_head_not_slash; eassumption. }
  rewrite Hr. cbn [app negb cs_of]. rewrite (seg_comp_false_true g Hg). rewrite <- HspM, seg_spans_fst. reflexivity.
Qed.

Lemma tl_map {A B} (f : A -> B) l : tl (map f l) = map f (tl l).
Proof. destruct l; reflexivity. Qed.

(* trim_first drops exactly the first component *)
Theorem trim_first_components s : components (trim_first s) = tl (components s).
Proof.
  unfold trim_first. rewrite <- (spans_comps s).
  destruct (spans s) as [|x sp2] eqn:Hsp0; [unfold as_path_after; rewrite Hsp0; reflexivity|].
  destruct sp2 as [|y sp3]; [unfold as_path_after; rewrite Hsp0; reflexivity|].
  rewrite (as_path_after_front1 s x (y :: sp3) Hsp0 ltac:(discriminate)). cbn [map tl].
  change (fst y :: map fst sp3) with (map fst (y :: sp3)).
  unfold spans in Hsp0. destruct (is_rooted s) eqn:Hr; cbn [app negb] in Hsp0.
  - (* rooted: the first component is the root *)
    injection Hsp0 as _ Hsp2.
    destruct (junk_prefix (split s) 0 false ltac:(rewrite Hsp2; discriminate)) as (gs0 & g & gs' & Hgs & Hj & Hp).
    assert (H0 : gs0 <> []).
    { intros ->. cbn [app] in Hgs. rewrite (rooted_first_seg s g gs' Hgs Hr) in Hp. apply Hp. reflexivity. }
    assert (Hp' : seg_comp false g <> []) by (destruct gs0; [congruence|exact Hp]).
    rewrite Hgs, (seg_spans_app gs0 (g :: gs') 0 false H0), Hj in Hsp2. cbn [app Nat.add] in Hsp2.
    rewrite <- Hsp2. exact (middle s gs0 g gs' Hgs H0 Hp').
  - destruct (junk_prefix (split s) 0 true ltac:(rewrite Hsp0; discriminate)) as (gs0 & g & gs' & Hgs & Hj & Hp).
    (* x is the span of g; the rest comes from gs' *)
    assert (Hsp2 : y :: sp3 = seg_spans gs' (length (join_names (gs0 ++ [g])) + 1) false).
    { rewrite Hgs in Hsp0. destruct gs0 as [|g0 gs0'].
      - cbn [app seg_spans join_names] in *. destruct (seg_comp true g) as [|c cs]; [congruence|]. cbn [app] in Hsp0. injection Hsp0 as _ <-. f_equal.
      - rewrite (seg_spans_app (g0 :: gs0') (g :: gs') 0 true ltac:(discriminate)), Hj in Hsp0. cbn [app Nat.add seg_spans] in Hsp0.
        destruct (seg_comp false g) as [|c cs]; [congruence|]. cbn [app] in Hsp0. injection Hsp0 as _ <-. f_equal.
        rewrite join_names_snoc by discriminate. rewrite app_length. cbn [length]. change (match gs0' with [] => g0 | _ :: _ => g0 ++ slash :: join_names gs0' end) with (join_names (g0 :: gs0')). lia. }
    set (A1 := gs0 ++ [g]) in *. assert (HA1 : A1 <> []) by (subst A1; destruct gs0; discriminate).
    destruct (junk_prefix gs' (length (join_names A1) + 1) false ltac:(rewrite <- Hsp2; discriminate)) as (gs0' & g' & gs'' & Hgs' & Hj' & Hp').
    assert (Hp'' : seg_comp false g' <> []) by (destruct gs0'; exact Hp').
    assert (Hsplit : split s = (A1 ++ gs0') ++ g' :: gs'') by (rewrite Hgs, Hgs'; subst A1; rewrite <- !app_assoc; reflexivity).
    assert (HA : A1 ++ gs0' <> []) by (destruct A1; [congruence|discriminate]).
    assert (Hpos : seg_spans gs' (length (join_names A1) + 1) false = seg_spans (g' :: gs'') (length (join_names (A1 ++ gs0')) + 1) false).
    { rewrite Hgs'. destruct gs0' as [|h hs].
      - rewrite app_nil_r. reflexivity.
      - rewrite (seg_spans_app (h :: hs) (g' :: gs'') _ false ltac:(discriminate)), Hj'. cbn [app]. f_equal.
        rewrite (join_names_app A1 (h :: hs) HA1 ltac:(discriminate)). rewrite app_length. cbn [length]. lia. }
    rewrite Hsp2, Hpos. exact (middle s (A1 ++ gs0') g' gs'' Hsplit HA Hp'').
Qed.

(* first names the component trim_first drops *)
Theorem first_trim_first_split p f : first p = Ok f ->
  exists c, components p = c :: components (trim_first p) /\ f = comp_str c.
Proof.
  unfold first. rewrite trim_first_components. destruct (components p) as [|c cs]; [discriminate|].
  intros H. injection H as <-. exists c. split; reflexivity.
Qed.

(* last names the component trim_last drops *)
Theorem last_trim_last_split p l : last p = Ok l ->
  exists c, components p = components (trim_last p) ++ [c] /\ l = comp_str c.
Proof.
  unfold last, base. rewrite trim_last_components. unfold last_opt.
  destruct (rev (components p)) as [|c r] eqn:Er; [discriminate|].
  intros H. injection H as <-. exists c. split; [|reflexivity].
  assert (Hc : components p = rev r ++ [c]) by (rewrite <- (rev_involutive (components p)), Er; reflexivity).
  rewrite Hc, removelast_snoc. reflexivity.
Qed.

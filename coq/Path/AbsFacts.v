(* Path/AbsFacts.v — proofs for C05: abs returns the clean absolute path that names the location
   obtained by lexically joining the (expanded, protocol-trimmed) argument onto the cwd. *)
From Coq Require Import List NArith Bool Lia Arith.
Import ListNotations.
From RV Require Import Base.Str Base.PathLex Base.PathLexFacts Base.SpanFacts
  Path.Clean Path.CleanSpec Path.CleanFacts Path.Relative Path.RelativeFacts
  Path.Helpers Path.HelpersFacts Path.Expand Path.ExpandFacts Path.Abs.

(* ---- the loop on a canonical relative path ---- *)
Lemma abs_of_nonroot ns n : Forall is_name (ns ++ [n]) -> str_eqb (abs_of (ns ++ [n])) [slash] = false.
Proof.
  intros H. rewrite abs_of_string by assumption. apply str_eqb_neq. intros E. injection E as E.
  assert (Hn : is_name n) by (apply Forall_app in H as [_ H]; inversion H; assumption).
  destruct ns as [|m ns].
  - cbn in E. destruct Hn as (Hn & _). congruence.
  - rewrite join_names_snoc in E by discriminate. destruct (join_names (m :: ns)); discriminate.
Qed.

Lemma strip_seps_noop b : is_rooted b = false -> strip_seps b = b.
Proof. destruct b as [|c b]; [reflexivity|]. cbn. intros ->. reflexivity. Qed.

Lemma abs_path_is_abs_of ns : abs_path ns = abs_of ns.
Proof. reflexivity. Qed.

(* B3: mash of a clean absolute path with a relative path made of names *)
Lemma mash_abs_names ns ms : Forall is_name ns -> Forall is_name ms -> ms <> [] ->
  mash (abs_of ns) (render (map CNormal ms)) = abs_of (ns ++ ms).
Proof.
  intros Hn Hm Hne. unfold mash.
  assert (Ht : Forall tailc_ok (map CNormal ms)) by (apply names_tailc'; assumption).
  assert (Hne' : map CNormal ms <> []) by (destruct ms; [congruence | discriminate]).
  assert (Hr : is_rooted (render (map CNormal ms)) = false).
  { destruct (is_rooted (render (map CNormal ms))) eqn:E; [|reflexivity].
    pose proof (components_render_unrooted _ Hne' Ht) as Hc. unfold components in Hc. rewrite E in Hc.
    destruct (split (render (map CNormal ms))); [destruct ms; discriminate|]. cbn [app] in Hc.
    destruct ms; [congruence|]. discriminate. }
  rewrite strip_seps_noop by assumption.
  rewrite <- abs_path_is_abs_of. rewrite join_abs_unrooted by assumption.
  rewrite components_render_rooted by (apply Forall_app; split; [apply names_tailc'|]; assumption).
  unfold abs_of. rewrite map_app. reflexivity.
Qed.

Lemma trim_first_render c cs : Forall tailc_ok (c :: cs) -> trim_first (render (c :: cs)) = render cs.
Proof. apply as_path_after_front. Qed.

Lemma dir_abs_of_snoc ns n : Forall is_name (ns ++ [n]) -> dir (abs_of (ns ++ [n])) = Ok (abs_of ns).
Proof.
  intros H. apply Forall_app in H as [H1 H2]. inversion H2; subst. unfold dir. rewrite parent_abs_of_snoc by assumption. reflexivity.
Qed.

(* peeling k ".." then mashing the names *)
Lemma abs_loop_ups k : forall ns ms fuel, Forall is_name ns -> Forall is_name ms ->
  k + length ms < fuel ->
  abs_loop fuel (abs_of ns) (render (repeat CParent k ++ map CNormal ms)) =
  if Nat.leb k (length ns) then Ok (abs_of (firstn (length ns - k) ns ++ ms)) else Err EParentNotFound.
Proof.
  induction k as [|k IH]; intros ns ms fuel Hn Hm Hf.
  - cbn [repeat app Nat.leb]. rewrite Nat.sub_0_r, firstn_all. destruct fuel as [|f]; [lia|]. cbn [abs_loop].
    destruct ms as [|m ms].
    + cbn. rewrite app_nil_r. reflexivity.
    + rewrite components_render_unrooted by (try discriminate; apply names_tailc'; assumption).
      cbn [map]. change (CNormal m :: map CNormal ms) with (map CNormal (m :: ms)).
      rewrite mash_abs_names by (try assumption; discriminate). reflexivity.
  - destruct fuel as [|f]; [lia|]. cbn [abs_loop repeat app].
    assert (Ht : Forall tailc_ok (CParent :: repeat CParent k ++ map CNormal ms)).
    { constructor; [exact I|]. apply Forall_app; split; [|apply names_tailc'; assumption].
      apply Forall_forall. intros x Hx. apply repeat_spec in Hx. subst. exact I. }
    rewrite components_render_unrooted by (try discriminate; assumption).
    destruct ns as [|n0 ns0] eqn:En.
    + cbn. reflexivity.
    + rewrite <- En in *. assert (Hne : ns <> []) by (rewrite En; discriminate).
      destruct (exists_last Hne) as (ns' & n & E). rewrite E in *.
      rewrite abs_of_nonroot by assumption. rewrite dir_abs_of_snoc by assumption.
      rewrite trim_first_render by assumption.
      apply Forall_app in Hn as [Hn' _]. unfold Ok at 1.
      rewrite IH by (try assumption; cbn in Hf; lia).
      rewrite app_length. cbn [length].
      replace (Nat.leb (S k) (length ns' + 1)) with (Nat.leb k (length ns')) by (destruct (Nat.leb_spec k (length ns')); symmetry; [apply Nat.leb_le | apply Nat.leb_gt]; lia).
      destruct (Nat.leb_spec k (length ns')); [|reflexivity].
      replace (length ns' + 1 - S k) with (length ns' - k) by lia.
      rewrite firstn_app. replace (length ns' - k - length ns') with 0 by lia. cbn [firstn]. rewrite app_nil_r. reflexivity.
Qed.

Lemma abs_loop_cur ns fuel : 1 < fuel -> abs_loop fuel (abs_of ns) [dot] = Ok (abs_of ns).
Proof. intros H. destruct fuel as [|[|f]]; try lia. reflexivity. Qed.

(* ---- denotation of  cwd / q ---- *)
Lemma den_go_rooted_root T : forall u s, d_root (den_go T true u s) = true.
Proof.
  induction T as [|c T IH]; intros u s; cbn [den_go]; [reflexivity|].
  destruct c; try apply IH. destruct s; apply IH.
Qed.

Lemma den_go_ups_mono T : forall r u s, u <= d_ups (den_go T r u s) \/ d_root (den_go T r u s) = true.
Proof.
  induction T as [|c T IH]; intros r u s; cbn [den_go]; [left; cbn; lia|].
  destruct c.
  - right. apply den_go_rooted_root.
  - apply IH.
  - destruct s; [destruct r|]; try apply IH. destruct (IH false (S u) []) as [H|H]; [left; lia | right; exact H].
  - apply IH.
Qed.

Definition no_root (T : list comp) : Prop := Forall (fun c => c <> CRoot) T.

Lemma den_go_unrooted_root T : no_root T -> forall u s, d_root (den_go T false u s) = false.
Proof.
  induction 1 as [|c T Hc _ IH]; intros u s; cbn [den_go]; [reflexivity|].
  destruct c; try congruence; try apply IH. destruct s; apply IH.
Qed.

Lemma den_go_rooted_vs_unrooted T : no_root T -> forall u s rn,
  let d := den_go T false u s in
  den_go T true 0 (s ++ rn) = {| d_root := true; d_ups := 0; d_names := rev (skipn (d_ups d - u) rn) ++ d_names d |}.
Proof.
  induction 1 as [|c T Hc HT IH]; intros u s rn; cbn zeta; cbn [den_go].
  - cbn. rewrite Nat.sub_diag. cbn. rewrite rev_app_distr. reflexivity.
  - destruct c as [| | |nm]; [congruence | apply IH | | ].
    + destruct s as [|n s].
      * cbn [app]. destruct rn as [|m rn].
        -- specialize (IH (S u) [] []). cbn zeta in IH. cbn [app] in IH. rewrite IH. rewrite !skipn_nil. reflexivity.
        -- specialize (IH (S u) [] rn). cbn zeta in IH. cbn [app] in IH. rewrite IH. f_equal. f_equal. f_equal.
           destruct (den_go_ups_mono T false (S u) []) as [H|H].
           ++ replace (d_ups (den_go T false (S u) []) - u) with (S (d_ups (den_go T false (S u) []) - S u)) by lia. reflexivity.
           ++ rewrite den_go_unrooted_root in H by assumption. discriminate.
      * cbn [app]. apply IH.
    + change (nm :: s ++ rn) with ((nm :: s) ++ rn). apply IH.
Qed.

(* the components a relative path contributes after a directory: its own, minus a leading "." *)
Lemma components_unrooted_tail q : is_rooted q = false ->
  components q = flat_map (seg_comp false) (split q) \/ components q = CCur :: flat_map (seg_comp false) (split q).
Proof.
  intros Hr. unfold components. rewrite Hr. pose proof (split_nonempty q) as Hne.
  destruct (split q) as [|g gs]; [congruence|]. cbn [negb app flat_map].
  destruct (seg_comp_true_shape g) as [H|H]; rewrite H.
  - right. f_equal.
    assert (Hf : seg_comp false g = []).
    { destruct g as [|a [|b [|c g']]]; cbn in H |- *.
      - reflexivity.
      - destruct (N.eqb a dot); [reflexivity | discriminate].
      - destruct (N.eqb a dot && N.eqb b dot); discriminate.
      - discriminate. }
    rewrite Hf. reflexivity.
  - left. reflexivity.
Qed.

Lemma flat_map_no_root gs : no_root (flat_map (seg_comp false) gs).
Proof.
  unfold no_root. pose proof (flat_map_tail gs) as H. eapply Forall_impl; [|exact H]. intros c Hc. destruct c; try discriminate. contradiction.
Qed.

(* cleaning  cwd joined with a relative q  pops the leading ".." of q off the cwd (never above the root) *)
Lemma clean_join_relative ns q : Forall is_name ns -> is_rooted q = false ->
  let d := denote (components q) in
  clean_spec (join (abs_of ns) q) = abs_of (firstn (length ns - d_ups d) ns ++ d_names d).
Proof.
  intros Hn Hr. cbn zeta. unfold clean_spec.
  assert (Habs : abs_of ns <> []) by (rewrite abs_of_string by assumption; discriminate).
  rewrite components_join by assumption. rewrite components_abs_of by assumption.
  set (T := flat_map (seg_comp false) (split q)).
  assert (HT : no_root T) by apply flat_map_no_root.
  assert (Hd : denote (components q) = den_go T false 0 []).
  { destruct (components_unrooted_tail q Hr) as [-> | ->]; reflexivity. }
  rewrite Hd. unfold denote. cbn [app den_go].
  assert (Hgo : forall ms t rn, den_go (map CNormal ms ++ t) true 0 rn = den_go t true 0 (rev ms ++ rn)).
  { induction ms as [|m ms IH]; intros t rn; [reflexivity|]. cbn [map app den_go]. rewrite IH. cbn [rev]. rewrite <- app_assoc. reflexivity. }
  rewrite Hgo, app_nil_r.
  pose proof (den_go_rooted_vs_unrooted T HT 0 [] (rev ns)) as H. cbn zeta in H. cbn [app] in H. rewrite H.
  unfold canon, abs_of. cbn [d_root d_ups d_names repeat app]. rewrite Nat.sub_0_r.
  do 3 f_equal. rewrite skipn_rev, rev_involutive. reflexivity.
Qed.

(* ---- the main statement ---- *)
Definition abs_spec (ns : list str) (env : envmap) (s : str) : res str :=
  if is_empty s then Err EEmpty else
  match expand env s with
  | inr e => Err e
  | inl p =>
      let q := trim_protocol p in
      if is_rooted q then Ok (clean_spec q)
      else if Nat.leb (d_ups (denote (components q))) (length ns)
           then Ok (clean_spec (join (abs_of ns) q))
           else Err EParentNotFound                      (* ".." climbs above the root *)
  end.

Lemma abs_is_spec ns env s : Forall is_name ns -> abs (abs_of ns) env s = abs_spec ns env s.
Proof.
  intros Hn. unfold abs, abs_spec. destruct (is_empty s); [reflexivity|].
  destruct (expand env s) as [p|e]; [|reflexivity]. cbn zeta. set (q := trim_protocol p).
  rewrite clean_is_spec.
  assert (Habs : is_absolute (clean_spec q) = is_rooted q) by (apply (clean_preserves_absolute q); apply clean_is_spec).
  rewrite Habs. destruct (is_rooted q) eqn:Hr; [reflexivity|].
  rewrite clean_join_relative by assumption.
  pose proof (denote_ok q) as Hd. pose proof (denote_root q) as Hroot. rewrite Hr in Hroot.
  unfold clean_spec at 1 2. rewrite components_render_canon by assumption.
  set (d := denote (components q)) in *. destruct Hd as [_ Hnames].
  unfold canon. rewrite Hroot. cbn [app].
  destruct (repeat CParent (d_ups d) ++ map CNormal (d_names d)) as [|c l] eqn:E.
  - assert (Hk : d_ups d = 0) by (destruct (d_ups d); [reflexivity | discriminate]).
    assert (Hm : d_names d = []) by (rewrite Hk in E; destruct (d_names d); [reflexivity | discriminate]).
    rewrite Hk, Hm. cbn [Nat.leb length]. rewrite Nat.sub_0_r, firstn_all, app_nil_r.
    change (render [CCur]) with [dot]. apply abs_loop_cur. lia.
  - rewrite <- E. rewrite abs_loop_ups by (try assumption; rewrite app_length, repeat_length, map_length; lia).
    reflexivity.
Qed.

(* consequences: absolute, normal form, and failure only for the documented reasons *)
Lemma is_rooted_join_abs ns q : Forall is_name ns -> is_rooted (join (abs_of ns) q) = true.
Proof.
  intros Hn. unfold join, push. destruct (is_rooted q) eqn:E; [exact E|].
  rewrite abs_of_string by assumption.
  destruct (last_char (slash :: join_names ns)) as [c|] eqn:El.
  - destruct (N.eqb c slash); cbn; reflexivity.
  - exfalso. unfold last_char in El. destruct (rev (slash :: join_names ns)) eqn:Er; [|discriminate].
    apply (f_equal (@length N)) in Er. rewrite rev_length in Er. discriminate.
Qed.

Lemma abs_absolute_normal ns env s r : Forall is_name ns -> abs (abs_of ns) env s = Ok r ->
  is_absolute r = true /\ NormalForm r.
Proof.
  intros Hn. rewrite abs_is_spec by assumption. unfold abs_spec.
  destruct (is_empty s); [discriminate|]. destruct (expand env s) as [p|e]; [|discriminate]. cbn zeta.
  destruct (is_rooted (trim_protocol p)) eqn:Hr.
  - intros H. injection H as <-. split; [|apply clean_normal].
    rewrite (clean_preserves_absolute (trim_protocol p) _ (clean_is_spec _)). exact Hr.
  - destruct (Nat.leb _ _); [|discriminate]. intros H. injection H as <-. split; [|apply clean_normal].
    rewrite (clean_preserves_absolute _ _ (clean_is_spec _)). apply is_rooted_join_abs. exact Hn.
Qed.

Lemma abs_fails_only ns env s e : Forall is_name ns -> abs (abs_of ns) env s = Err e ->
  (is_empty s = true /\ e = EEmpty) \/ expand env s = Err e \/
  (e = EParentNotFound /\ exists p, expand env s = Ok p /\ is_rooted (trim_protocol p) = false /\
     length ns < d_ups (denote (components (trim_protocol p)))).
Proof.
  intros Hn. rewrite abs_is_spec by assumption. unfold abs_spec.
  destruct (is_empty s); [intros H; injection H as <-; left; split; reflexivity|].
  destruct (expand env s) as [p|e']; [|intros H; injection H as <-; right; left; reflexivity]. cbn zeta.
  destruct (is_rooted (trim_protocol p)) eqn:Hr; [discriminate|].
  destruct (Nat.leb_spec (d_ups (denote (components (trim_protocol p)))) (length ns)) as [Hle|Hgt]; [discriminate|].
  intros H. injection H as <-. right. right. split; [reflexivity|]. exists p. repeat split; assumption.
Qed.

(* idempotence: a result without '~' / '$' is its own abs, from every cwd *)
Lemma find_none_no_dslash s : (forall a b, s <> a ++ [slash; slash] ++ b) -> trim_protocol s = s.
Proof.
  intros H. unfold trim_protocol. destruct (find s [slash; slash]) as [i|] eqn:E; [|reflexivity].
  unfold find in E. apply find_from_some in E as (a & b & Hs & _). exfalso. exact (H a b Hs).
Qed.

Lemma proper_nonempty g : proper g = true -> g <> [].
Proof. intros H E. subst g. discriminate. Qed.

Lemma normal_form_split r : NormalForm r ->
  split r = [[]; []] \/ (forall g, In g (tl (split r)) -> g <> []).
Proof.
  unfold NormalForm, normal_form_b. destruct (split r) as [|g0 gs] eqn:Es; [discriminate|].
  destruct g0 as [|c0 g0'].
  - destruct gs as [|g1 gs']; [discriminate|].
    destruct g1 as [|c1 g1'].
    + destruct gs' as [|g2 gs'']; [left; reflexivity|]. intros H. discriminate.
    + intros H. right. cbn [tl]. intros g Hg. rewrite forallb_forall in H. apply proper_nonempty, H, Hg.
  - intros H. right. cbn [tl]. apply orb_true_iff in H as [H|H].
    + apply str_eqb_eq in H. subst r. cbn in Es. injection Es as _ _ <-. intros g [].
    + intros g Hg. destruct (drop_dotdots_split ((c0 :: g0') :: gs)) as [k Hk].
      assert (Hin : In g ((c0 :: g0') :: gs)) by (right; exact Hg).
      rewrite Hk in Hin. apply in_app_or in Hin as [Hin|Hin].
      * apply repeat_spec in Hin. subst g. discriminate.
      * rewrite forallb_forall in H. apply proper_nonempty, H, Hin.
Qed.

Lemma normal_form_no_dslash r : NormalForm r -> forall a b, r <> a ++ [slash; slash] ++ b.
Proof.
  intros Hnf a b E.
  assert (Hsplit : split r = split a ++ [] :: split b).
  { rewrite E. change ([slash; slash] ++ b) with (slash :: ([] ++ slash :: b)).
    rewrite split_app_slash. f_equal. }
  pose proof (split_nonempty a) as Ha. pose proof (split_nonempty b) as Hb.
  destruct (split a) as [|x xs]; [congruence|]. destruct (split b) as [|y ys]; [congruence|].
  destruct (normal_form_split r Hnf) as [H|H].
  - rewrite H in Hsplit. cbn in Hsplit. injection Hsplit as _ Hsplit. destruct xs; cbn in Hsplit; [discriminate|].
    injection Hsplit as _ Hsplit. destruct xs; discriminate.
  - apply (H []); [|reflexivity]. rewrite Hsplit. cbn [app tl]. apply in_or_app. right. left. reflexivity.
Qed.

Lemma abs_idem ns ms env s r : Forall is_name ns -> Forall is_name ms ->
  abs (abs_of ns) env s = Ok r -> ~ In tilde r -> ~ In dollar r ->
  abs (abs_of ms) env r = Ok r.
Proof.
  intros Hn Hm Habs Ht Hd. destruct (abs_absolute_normal ns env s r Hn Habs) as [Ha Hnf].
  rewrite abs_is_spec by assumption. unfold abs_spec.
  assert (He : is_empty r = false).
  { unfold is_empty. destruct r as [|c r']; [discriminate|]. cbn [is_nil_str orb]. unfold is_absolute in Ha.
    unfold components. rewrite Ha. pose proof (split_nonempty (c :: r')) as Hsp. destruct (split (c :: r')); [congruence | reflexivity]. }
  rewrite He, (expand_plain env r Ht Hd). cbv beta iota zeta delta [Ok].
  rewrite (find_none_no_dslash r (normal_form_no_dslash r Hnf)). unfold is_absolute in Ha. rewrite Ha.
  rewrite (normal_form_fixed r Hnf). reflexivity.
Qed.

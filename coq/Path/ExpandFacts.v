(* Path/ExpandFacts.v — proofs for C17. *)
From Coq Require Import List NArith Bool Lia Arith.
Import ListNotations.
From RV Require Import Base.Str Base.PathLex Core.Iter Core.IterFacts Path.Helpers Path.Expand.

Lemma count_char_zero c s : count_char c s = 0 <-> ~ In c s.
Proof.
  unfold count_char. induction s as [|x s IH]; simpl; [tauto|].
  destruct (N.eqb_spec c x); simpl.
  - split; [discriminate | intros H; exfalso; apply H; left; congruence].
  - rewrite IH. split; [intros H [E|E]; [congruence | exact (H E)] | intros H E; apply H; right; exact E].
Qed.

Lemma expand_vars_plain env s : ~ In dollar s -> expand_vars env s = Ok s.
Proof. intros Hd. apply count_char_zero in Hd. unfold expand_vars. rewrite Hd. reflexivity. Qed.

(* text containing neither '~' nor '$' is returned unchanged, in every environment *)
Lemma expand_plain env s : ~ In tilde s -> ~ In dollar s -> expand env s = Ok s.
Proof.
  intros Ht Hd. apply count_char_zero in Ht. unfold expand, expand_home. rewrite Ht. cbn [Nat.ltb Nat.leb Nat.eqb andb].
  apply expand_vars_plain. exact Hd.
Qed.

(* more than one '~' fails *)
Lemma expand_two_tildes env s : 1 < count_char tilde s -> expand env s = Err EMultipleHomeSymbols.
Proof. intros H. unfold expand, expand_home. apply Nat.ltb_lt in H. rewrite H. reflexivity. Qed.

(* a single '~' that is not the whole path and not followed by '/' at the start fails *)
Lemma expand_inner_tilde env s : count_char tilde s = 1 -> starts_with s s_tilde_slash = false -> s <> [tilde] ->
  expand env s = Err EInvalidExpansion.
Proof.
  intros Hc Hs Hn. unfold expand, expand_home. rewrite Hc, Hs. apply str_eqb_neq in Hn. rewrite Hn. reflexivity.
Qed.

(* "~" alone is $HOME; "~/rest" is rest mashed onto $HOME (no further '$' in either) *)
Lemma expand_home_tilde env : expand_home env [tilde] = home_dir env.
Proof. reflexivity. Qed.

Lemma expand_tilde env h : env s_home = Some h -> ~ In dollar h -> expand env [tilde] = Ok h.
Proof.
  intros Hh Hd. unfold expand. rewrite expand_home_tilde. unfold home_dir. rewrite Hh.
  apply expand_vars_plain. exact Hd.
Qed.

Lemma expand_tilde_unset env : env s_home = None -> expand env [tilde] = Err EVarNotPresent.
Proof. intros Hh. unfold expand. rewrite expand_home_tilde. unfold home_dir. rewrite Hh. reflexivity. Qed.

Lemma expand_home_tilde_slash env rest : ~ In tilde rest ->
  expand_home env (tilde :: slash :: rest) = match home_dir env with inl h => Ok (mash h rest) | inr e => Err e end.
Proof.
  intros Ht. apply count_char_zero in Ht. unfold expand_home.
  assert (Hc : count_char tilde (tilde :: slash :: rest) = 1) by (unfold count_char in *; cbn; rewrite Ht; reflexivity).
  rewrite Hc. reflexivity.
Qed.

Lemma expand_tilde_slash env h rest : env s_home = Some h -> ~ In tilde rest ->
  ~ In dollar (mash h rest) ->
  expand env (tilde :: slash :: rest) = Ok (mash h rest).
Proof.
  intros Hh Ht Hd. unfold expand. rewrite expand_home_tilde_slash by assumption. unfold home_dir. rewrite Hh.
  apply expand_vars_plain. exact Hd.
Qed.

(* ---- variable substitution inside one component ---- *)
Lemma take_while_p_all {A} (p : A -> bool) l rest : forallb p l = true ->
  match rest with x :: _ => p x = false | [] => True end ->
  take_while_p p (l ++ rest) = (l, rest).
Proof.
  intros Hl Hr. induction l as [|x l IH]; cbn.
  - destruct rest as [|y rest]; [reflexivity|]. cbn. rewrite Hr. reflexivity.
  - cbn in Hl. apply andb_true_iff in Hl as [Hx Hl]. rewrite Hx, (IH Hl). reflexivity.
Qed.

Definition var_headed (ts : list tok) : Prop := match ts with TLit _ :: _ => False | _ => True end.

Lemma var_headed_unparse ts : var_headed ts -> match unparse ts with [] => True | c :: _ => c = dollar end.
Proof. destruct ts as [|[s|n|n] ts]; cbn; intros H; try exact I; try contradiction; reflexivity. Qed.

Lemma next_if_eq_other c s : match s with [] => True | x :: _ => x <> c end -> next_if_eq c s = s.
Proof. destruct s as [|x s]; [reflexivity|]. intros H. cbn. destruct (N.eqb_spec x c); [contradiction | reflexivity]. Qed.

Lemma dollar_not_rbrace : dollar <> rbrace.
Proof. discriminate. Qed.
Lemma dollar_not_lbrace : dollar <> lbrace.
Proof. discriminate. Qed.

Lemma take_while_p_dollar r : take_while_p ne_dollar (dollar :: r) = ([], dollar :: r).
Proof. reflexivity. Qed.
Lemma eqb_dollar : N.eqb dollar dollar = true.
Proof. reflexivity. Qed.

(* one iteration of the loop on a variable-headed remainder *)
Lemma var_step env f acc n ts' (braced : bool) :
  name_ok n -> (braced = false -> hd_error n <> Some lbrace /\ var_headed ts') ->
  expand_seg (S f) env (unparse ((if braced then TBrace n else TBare n) :: ts')) acc =
  match env n with
  | Some v => expand_seg f env (unparse ts') (acc ++ v)
  | None => Err EVarNotPresent
  end.
Proof.
  intros [Hne Hn] Hb.
  assert (Hshape : exists r, unparse ((if braced then TBrace n else TBare n) :: ts') = dollar :: r /\
            (let rest2 := next_if_eq lbrace r in
             take_while_p var_char rest2 = (n, if braced then rbrace :: unparse ts' else unparse ts'))).
  { destruct braced; cbn [unparse flat_map unparse_tok app].
    - eexists. split; [reflexivity|]. cbn [next_if_eq]. rewrite ?N.eqb_refl. rewrite <- app_assoc.
      apply take_while_p_all; [exact Hn | reflexivity].
    - destruct (Hb eq_refl) as [Hh Hv]. eexists. split; [reflexivity|]. cbn zeta.
      rewrite next_if_eq_other.
      + apply take_while_p_all; [exact Hn|]. pose proof (var_headed_unparse ts' Hv) as H.
        destruct (unparse ts') as [|c r]; [exact I|]. subst c. reflexivity.
      + destruct n as [|x n']; [congruence|]. cbn. intros ->. apply Hh. reflexivity. }
  destruct Hshape as (r & Hu & Htw). rewrite Hu. cbn [expand_seg].
  rewrite take_while_p_dollar, eqb_dollar, app_nil_r.
  cbn zeta in Htw. rewrite Htw.
  assert (Hr4 : next_if_eq rbrace (if braced then rbrace :: unparse ts' else unparse ts') = unparse ts').
  { destruct braced; [cbn; rewrite ?N.eqb_refl; reflexivity|]. destruct (Hb eq_refl) as [_ Hv].
    apply next_if_eq_other. pose proof (var_headed_unparse ts' Hv) as H.
    destruct (unparse ts') as [|c r']; [exact I|]. subst c. exact dollar_not_rbrace. }
  rewrite Hr4. destruct n; [congruence|]. reflexivity.
Qed.

(* a literal in front of a '$' (or the end) is just accumulated *)
Lemma lit_step env f acc s rest : s <> [] -> forallb ne_dollar s = true ->
  match rest with [] => True | c :: _ => c = dollar end ->
  expand_seg (S f) env (s ++ rest) acc =
  match rest with [] => Ok (acc ++ s) | _ => expand_seg (S f) env rest (acc ++ s) end.
Proof.
  intros Hne Hs Hr. destruct s as [|c0 s0] eqn:Es; [congruence|]. rewrite <- Es in *.
  assert (Hshape : s ++ rest = c0 :: (s0 ++ rest)) by (rewrite Es; reflexivity).
  cbn [expand_seg]. rewrite Hshape. rewrite <- Hshape.
  assert (Htw : take_while_p ne_dollar (s ++ rest) = (s, rest)).
  { apply take_while_p_all; [exact Hs|]. destruct rest as [|c r]; [exact I|]. subst c. reflexivity. }
  rewrite Htw. destruct rest as [|c r]; [reflexivity|]. subst c.
  rewrite eqb_dollar. cbn [expand_seg]. rewrite take_while_p_dollar, eqb_dollar, app_nil_r. reflexivity.
Qed.

Lemma unparse_cons t ts : unparse (t :: ts) = unparse_tok t ++ unparse ts.
Proof. reflexivity. Qed.

(* the loop over one component substitutes exactly the variables of a well-formed token list *)
Lemma expand_seg_spec env ts : toks_wf ts -> forall fuel acc, length (unparse ts) < fuel ->
  expand_seg fuel env (unparse ts) acc = match subst env ts with inl r => Ok (acc ++ r) | inr e => Err e end.
Proof.
  induction ts as [|t ts IH]; intros Hwf fuel acc Hfuel.
  - destruct fuel; [cbn in Hfuel; lia|]. cbn. rewrite app_nil_r. reflexivity.
  - destruct fuel as [|f]; [lia|].
    destruct t as [s|n|n]; cbn [toks_wf] in Hwf.
    + destruct Hwf as (Hne & Hs & Hv & Hwf'). rewrite unparse_cons. cbn [unparse_tok subst].
      rewrite unparse_cons in Hfuel. cbn [unparse_tok] in Hfuel. rewrite app_length in Hfuel.
      rewrite (lit_step env f acc s (unparse ts) Hne Hs (var_headed_unparse ts Hv)).
      destruct (unparse ts) as [|c r] eqn:Eu.
      * destruct ts as [|t' ts']; [cbn; rewrite app_nil_r; reflexivity|]. exfalso.
        destruct t' as [s'|n'|n']; cbn in Eu; try discriminate. contradiction.
      * rewrite IH by (try assumption; cbn in *; lia).
        destruct (subst env ts); [rewrite <- ?app_assoc; reflexivity | reflexivity].
    + destruct Hwf as (Hn & Hwf').
      rewrite (var_step env f acc n ts true Hn ltac:(discriminate)). cbn [subst].
      rewrite unparse_cons, app_length in Hfuel. simpl in Hfuel. rewrite ?app_length in Hfuel. simpl in Hfuel.
      destruct (env n) as [v|]; [|reflexivity].
      rewrite IH by (try assumption; lia). destruct (subst env ts); [rewrite <- ?app_assoc; reflexivity | reflexivity].
    + destruct Hwf as (Hn & Hh & Hv & Hwf').
      rewrite (var_step env f acc n ts false Hn (fun _ => conj Hh Hv)). cbn [subst].
      rewrite unparse_cons, app_length in Hfuel. simpl in Hfuel. rewrite ?app_length in Hfuel. simpl in Hfuel.
      destruct (env n) as [v|]; [|reflexivity].
      rewrite IH by (try assumption; lia). destruct (subst env ts); [rewrite <- ?app_assoc; reflexivity | reflexivity].
Qed.

(* with the fuel the mirror actually supplies *)
Lemma expand_seg_tokens env ts : toks_wf ts ->
  expand_seg (S (length (unparse ts))) env (unparse ts) [] = subst env ts.
Proof.
  intros Hwf. rewrite expand_seg_spec by (try assumption; lia). destruct (subst env ts); reflexivity.
Qed.

(* an empty variable name — '$' followed by the end, another '$', '}' or "{}" — fails *)
Lemma expand_seg_empty_name env f acc lit rest : forallb ne_dollar lit = true ->
  (let r2 := next_if_eq lbrace rest in match r2 with [] => True | c :: _ => var_char c = false end) ->
  expand_seg (S f) env (lit ++ dollar :: rest) acc = Err EInvalidExpansion.
Proof.
  intros Hl Hr. cbn zeta in Hr.
  assert (Htw : take_while_p ne_dollar (lit ++ dollar :: rest) = (lit, dollar :: rest))
    by (apply take_while_p_all; [exact Hl | reflexivity]).
  assert (Hshape : exists c t, lit ++ dollar :: rest = c :: t) by (destruct lit; eexists _, _; reflexivity).
  destruct Hshape as (c & t & E). cbn [expand_seg]. rewrite E. rewrite <- E. rewrite Htw. rewrite eqb_dollar.
  destruct (next_if_eq lbrace rest) as [|x r2]; [reflexivity|]. cbn [take_while_p]. rewrite Hr. reflexivity.
Qed.

(* the fuel the mirror supplies always suffices: the loop never reports EOther on its own *)
Lemma take_while_p_length {A} (p : A -> bool) l : length (snd (take_while_p p l)) <= length l.
Proof.
  induction l as [|x l IH]; cbn; [lia|]. destruct (p x); [|cbn; lia].
  destruct (take_while_p p l) as [t r]. cbn in *. lia.
Qed.

Lemma next_if_eq_length c s : length (next_if_eq c s) <= length s.
Proof. destruct s as [|x s]; cbn; [lia|]. destruct (N.eqb x c); cbn; lia. Qed.

Lemma take_while_p_stop {A} (p : A -> bool) l :
  match snd (take_while_p p l) with [] => True | x :: _ => p x = false end.
Proof.
  induction l as [|x l IH]; cbn; [exact I|]. destruct (p x) eqn:E; [|cbn; exact E].
  destruct (take_while_p p l) as [t r]. exact IH.
Qed.

Lemma expand_seg_no_fuel_error env chars : forall fuel acc, length chars < fuel ->
  expand_seg fuel env chars acc <> Err EOther.
Proof.
  remember (length chars) as n eqn:En. revert chars En.
  induction n as [n IH] using lt_wf_ind. intros chars En fuel acc Hf. subst n.
  assert (IH' : forall cs, length cs < length chars -> forall fuel acc, length cs < fuel -> expand_seg fuel env cs acc <> Err EOther)
    by (intros cs Hlt; apply (IH (length cs) Hlt cs eq_refl)).
  clear IH. rename IH' into IH. destruct fuel as [|f]; [lia|]. cbn [expand_seg].
  destruct chars as [|c0 cs]; [discriminate|].
  pose proof (take_while_p_length ne_dollar (c0 :: cs)) as Hlen.
  pose proof (take_while_p_stop ne_dollar (c0 :: cs)) as Hstop.
  destruct (take_while_p ne_dollar (c0 :: cs)) as [lit rest]. cbn [snd] in *.
  destruct rest as [|c rest1]; [discriminate|].
  unfold ne_dollar in Hstop. apply negb_false_iff in Hstop. rewrite Hstop.
  pose proof (next_if_eq_length lbrace rest1) as H2.
  pose proof (take_while_p_length var_char (next_if_eq lbrace rest1)) as H3.
  destruct (take_while_p var_char (next_if_eq lbrace rest1)) as [var rest3]. cbn [snd] in *.
  pose proof (next_if_eq_length rbrace rest3) as H4.
  destruct var; [discriminate|]. destruct (env (n :: var)); [|discriminate].
  apply IH; cbn [length] in *; lia.
Qed.

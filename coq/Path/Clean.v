(* Path/Clean.v — mirror of rivia::sys::clean (src/sys/fs/path.rs, `pub fn clean`).
   Same loop state (cnt, prev, path_buf) and branch order as the Rust code; `prev.unwrap()` is an
   explicit Panic.  PathBuf is held as its component vector (push of a component appends, push of
   RootDir replaces, pop removes the last); the final buffer is rendered with PathLex.render. *)
From Coq Require Import List NArith Bool Lia Arith.
Import ListNotations.
From RV Require Import Base.Str Base.PathLex.

Definition opt_is_parent (o : option comp) : bool := match o with Some CParent => true | _ => false end.

Definition cpush (buf : list comp) (c : comp) : list comp :=
  match c with CRoot => [CRoot] | _ => buf ++ [c] end.

Definition lastc (buf : list comp) : option comp :=
  match rev buf with [] => None | c :: _ => Some c end.

Fixpoint clean_loop (cs : list comp) (cnt : nat) (prev : option comp) (buf : list comp)
  : outcome (list comp) :=
  match cs with
  | [] => Done buf
  | c :: t =>
    match c with
    (* x if x == Component::CurDir && cnt == 0 => continue *)
    | CCur => if Nat.eqb cnt 0 then clean_loop t cnt prev buf
              else clean_loop t (S cnt) (Some c) (cpush buf c)
    (* x if x == ParentDir && cnt > 0 && !prev.has(ParentDir) => match prev.unwrap() {..}; continue *)
    | CParent =>
        if negb (Nat.eqb cnt 0) && negb (opt_is_parent prev) then
          match prev with
          | None => Panic
          | Some CRoot => clean_loop t cnt prev buf
          | Some (CNormal _) => clean_loop t (cnt - 1) (lastc (removelast buf)) (removelast buf)
          | Some _ => clean_loop t cnt prev buf
          end
        else clean_loop t (S cnt) (Some c) (cpush buf c)
    | _ => clean_loop t (S cnt) (Some c) (cpush buf c)
    end
  end.

Definition clean_comps (cs : list comp) : outcome (list comp) :=
  match clean_loop cs 0 None [] with
  | Done [] => Done [CCur]
  | r => r
  end.

(* sys::clean on strings *)
Definition clean (s : str) : outcome str :=
  match clean_comps (components s) with
  | Done l => Done (render l)
  | Panic => Panic
  | OutOfFuel => OutOfFuel
  end.

(* ---------------------------------------------------------------------------------------------
   Go's path.Clean, transliterated line by line (lazybuf as (buf, w); indices r, dotdot).
   Third executable oracle of the tie; `go_clean_agrees` is the target theorem. *)
Definition nth_c (s : str) (i : nat) : N := nth i s 0%N.

(* lazybuf.append: write c at index w *)
Definition buf_put (buf : str) (w : nat) (c : N) : str := firstn w buf ++ [c].

Fixpoint go_backtrack (buf : str) (w dotdot : nat) (fuel : nat) : nat :=
  match fuel with
  | O => w
  | S f => if Nat.ltb dotdot w && negb (N.eqb (nth_c buf w) slash)
           then go_backtrack buf (w - 1) dotdot f else w
  end.

Fixpoint go_loop (fuel : nat) (s : str) (n : nat) (rooted : bool) (r : nat) (buf : str) (w dotdot : nat)
  : outcome (str * nat) :=
  match fuel with
  | O => OutOfFuel
  | S f =>
    if negb (Nat.ltb r n) then Done (buf, w) else
    let c := nth_c s r in
    if N.eqb c slash then go_loop f s n rooted (r + 1) buf w dotdot
    else if N.eqb c dot && (Nat.eqb (r + 1) n || N.eqb (nth_c s (r + 1)) slash)
      then go_loop f s n rooted (r + 1) buf w dotdot
    else if N.eqb c dot && N.eqb (nth_c s (r + 1)) dot && Nat.ltb (r + 1) n
            && (Nat.eqb (r + 2) n || N.eqb (nth_c s (r + 2)) slash)
      then
        let r := r + 2 in
        if Nat.ltb dotdot w then
          let w1 := w - 1 in
          let w2 := go_backtrack buf w1 dotdot (S w1) in
          go_loop f s n rooted r buf w2 dotdot
        else if negb rooted then
          let '(buf, w) := if Nat.ltb 0 w then (buf_put buf w slash, w + 1) else (buf, w) in
          let buf := buf_put buf w dot in
          let buf := buf_put buf (w + 1) dot in
          go_loop f s n rooted r buf (w + 2) (w + 2)
        else go_loop f s n rooted r buf w dotdot
    else
      (* real path element: add slash if needed, copy element *)
      let '(buf, w) := if (rooted && negb (Nat.eqb w 1)) || (negb rooted && negb (Nat.eqb w 0))
                       then (buf_put buf w slash, w + 1) else (buf, w) in
      (fix copy (k : nat) (r : nat) (buf : str) (w : nat) {struct k} :=
         match k with
         | O => go_loop f s n rooted r buf w dotdot
         | S k' => if Nat.ltb r n && negb (N.eqb (nth_c s r) slash)
                   then copy k' (r + 1) (buf_put buf w (nth_c s r)) (w + 1)
                   else go_loop f s n rooted r buf w dotdot
         end) n r buf w
  end.

Definition go_clean (s : str) : outcome str :=
  match s with
  | [] => Done [dot]
  | _ =>
    let n := length s in
    let rooted := is_rooted s in
    let '(buf, w, r, dotdot) := if rooted then ([slash], 1, 1, 1) else ([], 0, 0, 0) in
    match go_loop (S (S n)) s n rooted r buf w dotdot with
    | Done (buf, w) => if Nat.eqb w 0 then Done [dot] else Done (firstn w buf)
    | Panic => Panic
    | OutOfFuel => OutOfFuel
    end
  end.

(* Extract.v — the single extraction file.  ExtrOcamlBasic only (directives listed in DESIGN §4). *)
From Coq Require Extraction.
From Coq Require Import ExtrOcamlBasic.
From RV Require Import Api Memfs.Walk.
Extraction "model.ml"
  api_components api_push api_render api_parent api_file_name api_extension api_path_eqb
  api_path_starts_with api_is_absolute api_clean api_go_clean api_clean_spec api_normal_form_b
  api_relative api_relative_spec api_relative_check
  api_base api_first api_dir api_ext api_trim_prefix api_trim_suffix api_trim_ext api_name api_has
  api_has_prefix api_has_suffix api_mash api_trim_first api_trim_last api_concat api_parse_paths
  api_is_empty api_trim_protocol api_kf_ext_class
  api_it_drop api_it_drop_spec api_it_slice api_it_slice_spec api_it_first api_it_first_result
  api_it_last_result api_it_single api_it_some api_it_consume api_str_size api_str_to_bool
  api_str_trim_suffix api_opt_has api_take_while_ne api_defer_run
  api_mf_run api_c_run api_wh_trace api_expand api_abs
  api_xdg_home api_xdg_dirs api_getrids api_vfs_config_dir api_sym_mode api_revoking_mode
  api_walk_vs_spec api_ref_init api_ref_step api_ref_of api_tree_list api_mfs_init api_mfs_step api_mfs_entries api_mfs_data api_files_list api_render_rpath api_wf_b api_mfs_of_lists api_mk_entry api_set_of_list api_rpath_of_string api_h_init api_hstep api_macro
  w_follow w_min_depth w_max_depth w_sort_by_name w_dirs_first w_files_first w_contents_first w_dirs w_files w_maxdesc default_wopts.

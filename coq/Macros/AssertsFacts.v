(* Macros/AssertsFacts.v — C20: each checking macro passes exactly when its predicate holds, never
   changes the state, and names itself and a path when it panics. *)
From stdpp Require Import gmap.
From Coq Require Import NArith.
From RV Require Import Base.Str Base.Utf8 Path.Helpers Path.Expand Memfs.State Memfs.Ops Memfs.Step Macros.Asserts.

Ltac bad := split; [discriminate | intros (? & ? & ?); try discriminate; try congruence].
Ltac good p := split; [intros _; exists p; split; [reflexivity | try done] | reflexivity].

Theorem a_exists_iff env m s : (a_exists env m s).2 = Pass ↔ ∃ p, resolve env m s = inl p ∧ exists_at m p = true.
Proof. unfold a_exists, with_abs. destruct (resolve env m s) as [p|e]; cbn [snd fst]; [|bad]. destruct (exists_at m p) eqn:E; [good p | bad; simplify_eq; congruence]. Qed.

Theorem a_no_exists_iff env m s : (a_no_exists env m s).2 = Pass ↔ ∃ p, resolve env m s = inl p ∧ exists_at m p = false.
Proof. unfold a_no_exists, with_abs. destruct (resolve env m s) as [p|e]; cbn [snd fst]; [|bad]. destruct (exists_at m p) eqn:E; [bad; simplify_eq; congruence | good p]. Qed.

Theorem a_is_dir_iff env m s : (a_is_dir env m s).2 = Pass ↔ ∃ p, resolve env m s = inl p ∧ is_dir_at m p = true.
Proof.
  unfold a_is_dir, with_abs. destruct (resolve env m s) as [p|e]; cbn [snd fst]; [|bad].
  unfold exists_at. destruct (is_dir_at m p) eqn:Ed.
  - assert (is_Some (m_ents m !! p)) as Hs by (unfold is_dir_at in Ed; destruct (m_ents m !! p); [eauto | done]).
    rewrite bool_decide_eq_true_2 by done. good p.
  - destruct (bool_decide _); bad; simplify_eq; congruence.
Qed.

Theorem a_no_dir_iff env m s : (a_no_dir env m s).2 = Pass ↔ ∃ p, resolve env m s = inl p ∧ is_dir_at m p = false.
Proof. unfold a_no_dir, with_abs. destruct (resolve env m s) as [p|e]; cbn [snd fst]; [|bad]. destruct (is_dir_at m p) eqn:E; [bad; simplify_eq; congruence | good p]. Qed.

Theorem a_is_file_iff env m s : (a_is_file env m s).2 = Pass ↔ ∃ p, resolve env m s = inl p ∧ is_file_at m p = true.
Proof.
  unfold a_is_file, with_abs. destruct (resolve env m s) as [p|e]; cbn [snd fst]; [|bad].
  unfold exists_at. destruct (is_file_at m p) eqn:Ed.
  - assert (is_Some (m_ents m !! p)) as Hs by (unfold is_file_at in Ed; destruct (m_ents m !! p); [eauto | done]).
    rewrite bool_decide_eq_true_2 by done. good p.
  - destruct (bool_decide _); bad; simplify_eq; congruence.
Qed.

Theorem a_no_file_iff env m s : (a_no_file env m s).2 = Pass ↔ ∃ p, resolve env m s = inl p ∧ is_file_at m p = false.
Proof. unfold a_no_file, with_abs. destruct (resolve env m s) as [p|e]; cbn [snd fst]; [|bad]. destruct (is_file_at m p) eqn:E; [bad; simplify_eq; congruence | good p]. Qed.

Theorem a_is_symlink_iff env m s : (a_is_symlink env m s).2 = Pass ↔ ∃ p, resolve env m s = inl p ∧ is_symlink_at m p = true.
Proof.
  unfold a_is_symlink, with_abs. destruct (resolve env m s) as [p|e]; cbn [snd fst]; [|bad].
  destruct (is_symlink_at m p) eqn:Ed; cbn [negb]; [good p|].
  destruct (exists_at m p); bad; simplify_eq; congruence.
Qed.

Theorem a_no_symlink_iff env m s : (a_no_symlink env m s).2 = Pass ↔ ∃ p, resolve env m s = inl p ∧ is_symlink_at m p = false.
Proof.
  unfold a_no_symlink, with_abs. destruct (resolve env m s) as [p|e]; cbn [snd fst]; [|bad].
  destruct (is_symlink_at m p) eqn:Ed; [bad; simplify_eq; congruence | good p].
Qed.

Theorem a_read_all_iff env m s d : (a_read_all env m s d).2 = Pass ↔
  ∃ p, resolve env m s = inl p ∧ is_file_at m p = true ∧ file_bytes m p = Some d ∧ valid_utf8 d = true.
Proof.
  unfold a_read_all, with_abs. destruct (resolve env m s) as [p|e]; cbn [snd fst]; [|bad].
  destruct (is_file_at m p) eqn:Ef; cbn [negb]; [|split; [discriminate | intros (? & ? & ? & _); simplify_eq; congruence]].
  destruct (file_bytes m p) as [d'|] eqn:Eb; [|split; [discriminate | intros (? & ? & _ & ? & _); simplify_eq; congruence]].
  destruct (valid_utf8 d') eqn:Ev; cbn [andb]; [|split; [discriminate | intros (? & ? & _ & ? & ?); simplify_eq; congruence]].
  case_bool_decide.
  - subst d'. split; [intros _; exists p; done | done].
  - split; [discriminate | intros (? & ? & _ & ? & _); simplify_eq; congruence].
Qed.

(* checking macros never change the state *)
Theorem checking_macros_pure env m s d :
  (a_exists env m s).1 = m ∧ (a_no_exists env m s).1 = m ∧ (a_is_dir env m s).1 = m ∧ (a_no_dir env m s).1 = m ∧
  (a_is_file env m s).1 = m ∧ (a_no_file env m s).1 = m ∧ (a_is_symlink env m s).1 = m ∧ (a_no_symlink env m s).1 = m ∧
  (a_read_all env m s d).1 = m ∧ (a_readlink env m s d).1 = m ∧ (a_readlink_abs env m s d).1 = m.
Proof.
  unfold a_exists, a_no_exists, a_is_dir, a_no_dir, a_is_file, a_no_file, a_is_symlink, a_no_symlink, a_read_all, a_readlink, a_readlink_abs, with_abs.
  destruct (resolve env m s); cbn; repeat split; try done. destruct (resolve env m d); done.
Qed.

(* a panic always names the macro itself *)
Definition names (v : verdict) (macro : macro_id) : Prop := match v with Pass => True | Panics n _ => n = macro end.

Theorem checking_macros_name_themselves env m s d :
  names (a_exists env m s).2 M_exists ∧ names (a_no_exists env m s).2 M_no_exists ∧
  names (a_is_dir env m s).2 M_is_dir ∧ names (a_no_dir env m s).2 M_no_dir ∧
  names (a_is_file env m s).2 M_is_file ∧ names (a_no_file env m s).2 M_no_file ∧
  names (a_is_symlink env m s).2 M_is_symlink ∧ names (a_no_symlink env m s).2 M_no_symlink ∧
  names (a_read_all env m s d).2 M_read_all ∧ names (a_readlink env m s d).2 M_readlink ∧
  names (a_readlink_abs env m s d).2 M_readlink_abs.
Proof.
  unfold a_exists, a_no_exists, a_is_dir, a_no_dir, a_is_file, a_no_file, a_is_symlink, a_no_symlink, a_read_all, a_readlink, a_readlink_abs, with_abs.
  destruct (resolve env m s); cbn; repeat split; try done; repeat case_match; done.
Qed.

(* acting macros: passing implies the postcondition in the resulting state *)
Theorem a_mkdir_p_post env m s m' : a_mkdir_p env m s = (m', Pass) → ∃ p, resolve env m s = inl p ∧ is_dir_at m' p = true.
Proof. unfold a_mkdir_p, with_abs. destruct (resolve env m s) as [p|]; [|done]. repeat case_match; intros; simplify_eq; eauto. Qed.

Theorem a_mkfile_post env m s m' : a_mkfile env m s = (m', Pass) → ∃ p, resolve env m s = inl p ∧ is_file_at m' p = true.
Proof. unfold a_mkfile, with_abs. destruct (resolve env m s) as [p|]; [|done]. repeat case_match; intros; simplify_eq; eauto. Qed.

Theorem a_write_all_post env m s d m' : a_write_all env m s d = (m', Pass) → ∃ p, resolve env m s = inl p ∧ is_file_at m' p = true.
Proof. unfold a_write_all, with_abs. destruct (resolve env m s) as [p|]; [|done]. repeat case_match; intros; simplify_eq; eauto. Qed.

Theorem a_symlink_post env m l t m' : a_symlink env m l t = (m', Pass) → ∃ p, resolve env m l = inl p ∧ is_symlink_at m' p = true.
Proof. unfold a_symlink, with_abs. destruct (resolve env m l) as [p|]; [|done]. repeat case_match; intros; simplify_eq; eauto. Qed.

Theorem a_remove_post env m s m' : a_remove env m s = (m', Pass) → ∃ p, resolve env m s = inl p ∧ exists_at m' p = false.
Proof.
  unfold a_remove, with_abs. destruct (resolve env m s) as [p|]; [|done].
  destruct (exists_at m p) eqn:E; [|intros; simplify_eq; eauto]. repeat case_match; intros; simplify_eq; eauto.
Qed.

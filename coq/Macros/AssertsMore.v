(* Macros/AssertsMore.v — C20: the remaining checking macros (readlink, readlink_abs) pass exactly when their predicate holds,
   and the acting macros mkdir_m and remove_all establish their postcondition when they pass. *)
From stdpp Require Import gmap.
From Coq Require Import NArith.
From RV Require Import Base.Str Base.Utf8 Path.Helpers Path.Expand Memfs.State Memfs.Ops Memfs.Step Macros.Asserts.

Theorem a_readlink_iff env m s x : (a_readlink env m s x).2 = Pass ↔
  ∃ p e, resolve env m s = inl p ∧ m_ents m !! p = Some e ∧ e_link e = true ∧ e_rel e = x.
Proof.
  unfold a_readlink, with_abs, is_symlink_at. destruct (resolve env m s) as [p|err]; cbn [snd fst].
  2:{ split; [discriminate|]. intros (? & ? & ? & _). discriminate. }
  destruct (m_ents m !! p) as [e|] eqn:He; cbn [negb].
  - destruct (e_link e) eqn:El; cbn [negb].
    + case_bool_decide as Hx.
      * split; [intros _; exists p, e; done|done].
      * split; [discriminate|]. intros (p' & e' & Hp & He' & _ & Hr). simplify_eq; try done; try congruence.
    + split; [discriminate|]. intros (p' & e' & Hp & He' & Hl & _). simplify_eq; try done; try congruence.
  - split; [discriminate|]. intros (p' & e' & Hp & He' & _). simplify_eq; try done; try congruence.
Qed.

Theorem a_readlink_abs_iff env m s x : (a_readlink_abs env m s x).2 = Pass ↔
  ∃ p t e, resolve env m s = inl p ∧ resolve env m x = inl t ∧ m_ents m !! p = Some e ∧ e_link e = true ∧ e_alt e = Some t.
Proof.
  unfold a_readlink_abs, with_abs, is_symlink_at. destruct (resolve env m s) as [p|err]; cbn [snd fst].
  2:{ split; [discriminate|]. intros (? & ? & ? & ? & _). discriminate. }
  destruct (resolve env m x) as [t|err]; cbn [snd fst].
  2:{ split; [discriminate|]. intros (? & ? & ? & _ & ? & _). discriminate. }
  destruct (m_ents m !! p) as [e|] eqn:He; cbn [negb].
  - destruct (e_link e) eqn:El; cbn [negb].
    + case_bool_decide as Hx.
      * split; [intros _; exists p, t, e; done|done].
      * split; [discriminate|]. intros (p' & t' & e' & Hp & Ht & He' & _ & Hr). simplify_eq; try done; try congruence.
    + split; [discriminate|]. intros (p' & t' & e' & Hp & Ht & He' & Hl & _). simplify_eq; try done; try congruence.
  - split; [discriminate|]. intros (p' & t' & e' & Hp & Ht & He' & _). simplify_eq; try done; try congruence.
Qed.

(* readlink / readlink_abs never change the state *)
Theorem readlink_macros_pure env m s x : (a_readlink env m s x).1 = m ∧ (a_readlink_abs env m s x).1 = m.
Proof. unfold a_readlink, a_readlink_abs, with_abs. repeat case_match; done. Qed.

Theorem a_mkdir_m_post env m s mode m' : a_mkdir_m env m s mode = (m', Pass) →
  ∃ p e, resolve env m s = inl p ∧ is_dir_at m' p = true ∧ m_ents m' !! p = Some e ∧ N.land (e_mode e) 4095 = N.land mode 4095.
Proof.
  unfold a_mkdir_m, with_abs. destruct (resolve env m s) as [p|err]; [|discriminate].
  destruct (mkdir_m_abs m p (Some mode)) as [m1 [u|e1]]; [|discriminate].
  destruct (m_ents m1 !! p) as [e|] eqn:He; [|discriminate].
  destruct (negb (N.eqb _ _)) eqn:Em; [discriminate|]. destruct (is_dir_at m1 p) eqn:Ed; [|discriminate].
  intros H. injection H as <-. exists p, e. split; [done|]. split; [done|]. split; [done|]. apply negb_false_iff, N.eqb_eq in Em. done.
Qed.

Theorem a_remove_all_post env m s m' : a_remove_all env m s = Done (m', Pass) → ∃ p, resolve env m s = inl p ∧ exists_at m' p = false.
Proof.
  unfold a_remove_all. destruct (resolve env m s) as [p|err]; [|discriminate].
  destruct (remove_all_op env m (render_rpath p)) as [[m1 [u|e1]]| |]; try discriminate.
  destruct (exists_at m1 p) eqn:E; [discriminate|]. intros H. injection H as <-. eauto.
Qed.

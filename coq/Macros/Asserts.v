(* Macros/Asserts.v — the assert_vfs_* macros (src/testing/assert.rs, after their fixes) as functions
   over the Memfs mirror: each macro body in the order of its calls (abs, exists, is_*, the operation,
   the post-check), returning the new state and Pass or Panics(macro name, path named). *)
From stdpp Require Import gmap.
From Coq Require Import NArith.
From RV Require Import Base.Str Base.Utf8 Path.Helpers Path.Expand Memfs.State Memfs.Ops Memfs.Walk Memfs.WalkOps Memfs.Step.

(* the macro a panic message names: assert_vfs_<name>! *)
Inductive macro_id := M_exists | M_no_exists | M_is_dir | M_no_dir | M_is_file | M_no_file | M_is_symlink | M_no_symlink | M_read_all | M_readlink | M_readlink_abs | M_mkdir_p | M_mkdir_m | M_mkfile | M_write_all | M_symlink | M_remove | M_remove_all | M_copyfile.

Inductive verdict := Pass | Panics (macro : macro_id) (named : list N).

Definition exists_at (m : mfs) (p : rpath) : bool := bool_decide (is_Some (m_ents m !! p)).
Definition is_file_at (m : mfs) (p : rpath) : bool := match m_ents m !! p with Some e => e_file e && negb (e_link e) | None => false end.
Definition is_symlink_at (m : mfs) (p : rpath) : bool := match m_ents m !! p with Some e => e_link e | None => false end.

(* `let target = match $vfs.abs($path) { Ok(x) => x, _ => panic_msg!(name, "failed to get absolute path", $path) }` *)
Definition with_abs (env : envmap) (m : mfs) (name : macro_id) (s : list N) (k : rpath → mfs * verdict) : mfs * verdict :=
  match resolve env m s with
  | inl p => k p
  | inr _ => (m, Panics name s)
  end.


(* ---- checking macros ---- *)
Definition a_exists env m s := with_abs env m M_exists s (fun p =>
  (m, if exists_at m p then Pass else Panics M_exists (render_rpath p))).
Definition a_no_exists env m s := with_abs env m M_no_exists s (fun p =>
  (m, if exists_at m p then Panics M_no_exists (render_rpath p) else Pass)).
Definition a_is_dir env m s := with_abs env m M_is_dir s (fun p =>
  (m, if exists_at m p then (if is_dir_at m p then Pass else Panics M_is_dir (render_rpath p))
      else Panics M_is_dir (render_rpath p))).
Definition a_no_dir env m s := with_abs env m M_no_dir s (fun p =>
  (m, if is_dir_at m p then Panics M_no_dir (render_rpath p) else Pass)).
Definition a_is_file env m s := with_abs env m M_is_file s (fun p =>
  (m, if exists_at m p then (if is_file_at m p then Pass else Panics M_is_file (render_rpath p))
      else Panics M_is_file (render_rpath p))).
Definition a_no_file env m s := with_abs env m M_no_file s (fun p =>
  (m, if is_file_at m p then Panics M_no_file (render_rpath p) else Pass)).
Definition a_is_symlink env m s := with_abs env m M_is_symlink s (fun p =>
  (m, if negb (is_symlink_at m p) then (if exists_at m p then Panics M_is_symlink (render_rpath p) else Panics M_is_symlink (render_rpath p))
      else Pass)).
Definition a_no_symlink env m s := with_abs env m M_no_symlink s (fun p =>
  (m, if is_symlink_at m p then Panics M_no_symlink (render_rpath p) else Pass)).

Definition file_bytes (m : mfs) (p : rpath) : option (list N) :=
  match m_ents m !! p with
  | Some e => if e_file e then m_data m !! p else None
  | None => m_data m !! p
  end.

Definition a_read_all env m s (expected : list N) := with_abs env m M_read_all s (fun p =>
  (m, if negb (is_file_at m p) then Panics M_read_all (render_rpath p)
      else match file_bytes m p with
           | Some d => if valid_utf8 d && bool_decide (d = expected) then Pass else Panics M_read_all (render_rpath p)
           | None => Panics M_read_all (render_rpath p)
           end)).

Definition a_readlink env m s (expected : list N) := with_abs env m M_readlink s (fun p =>
  (m, if negb (is_symlink_at m p) then Panics M_readlink (render_rpath p)
      else match m_ents m !! p with
           | Some e => if bool_decide (e_rel e = expected) then Pass else Panics M_readlink (e_rel e)
           | None => Panics M_readlink (render_rpath p)
           end)).

Definition a_readlink_abs env m s (expected : list N) := with_abs env m M_readlink_abs s (fun p =>
  with_abs env m M_readlink_abs expected (fun t =>
  (m, if negb (is_symlink_at m p) then Panics M_readlink_abs (render_rpath p)
      else match m_ents m !! p with
           | Some e => if bool_decide (e_alt e = Some t) then Pass
                       else Panics M_readlink_abs (match e_alt e with Some a => render_rpath a | None => [] end)
           | None => Panics M_readlink_abs (render_rpath p)
           end))).

(* ---- acting macros ---- *)
Definition a_mkdir_p env m s := with_abs env m M_mkdir_p s (fun p =>
  match mkdir_m_abs m p None with
  | (m', inl _) => (m', if is_dir_at m' p then Pass else Panics M_mkdir_p (render_rpath p))
  | (m', inr _) => (m', Panics M_mkdir_p (render_rpath p))
  end).

Definition a_mkdir_m env m s (mode : N) := with_abs env m M_mkdir_m s (fun p =>
  match mkdir_m_abs m p (Some mode) with
  | (m', inl _) =>
      match m_ents m' !! p with
      | Some e => if negb (N.eqb (N.land (e_mode e) 4095) (N.land mode 4095)) then (m', Panics M_mkdir_m (render_rpath p))
                  else (m', if is_dir_at m' p then Pass else Panics M_mkdir_m (render_rpath p))
      | None => (m', Panics M_mkdir_m (render_rpath p))
      end
  | (m', inr _) => (m', Panics M_mkdir_m (render_rpath p))
  end).

Definition a_mkfile env m s := with_abs env m M_mkfile s (fun p =>
  if exists_at m p then (m, if is_file_at m p then Pass else Panics M_mkfile (render_rpath p))
  else match add m (new_file p) with
       | (m', inl _) => (m', if is_file_at m' p then Pass else Panics M_mkfile (render_rpath p))
       | (m', inr _) => (m', Panics M_mkfile (render_rpath p))
       end).

Definition a_write_all env m s (d : list N) := with_abs env m M_write_all s (fun p =>
  if exists_at m p && negb (is_file_at m p) then (m, Panics M_write_all (render_rpath p))
  else match write_all_op env m (render_rpath p) d with
       | (m', inl _) => (m', if is_file_at m' p then Pass else Panics M_write_all (render_rpath p))
       | (m', inr _) => (m', Panics M_write_all (render_rpath p))
       end).

Definition a_symlink env m l t := with_abs env m M_symlink l (fun p =>
  if exists_at m p then (m, if is_symlink_at m p then Pass else Panics M_symlink (render_rpath p))
  else match symlink_op env m (render_rpath p) t with
       | (m', inl _) => (m', if is_symlink_at m' p then Pass else Panics M_symlink (render_rpath p))
       | (m', inr _) => (m', Panics M_symlink (render_rpath p))
       end).

Definition a_remove env m s := with_abs env m M_remove s (fun p =>
  if exists_at m p then
    match remove_op env m (render_rpath p) with
    | (m', inl _) => (m', if exists_at m' p then Panics M_remove (render_rpath p) else Pass)
    | (m', inr _) => (m', Panics M_remove (render_rpath p))
    end
  else (m, Pass)).

Definition a_remove_all env m s : outcome (mfs * verdict) :=
  match resolve env m s with
  | inr _ => Done (m, Panics M_remove_all s)
  | inl p =>
      match remove_all_op env m (render_rpath p) with
      | Done (m', inl _) => Done (m', if exists_at m' p then Panics M_remove_all (render_rpath p) else Pass)
      | Done (m', inr _) => Done (m', Panics M_remove_all (render_rpath p))
      | Panic => Panic | OutOfFuel => OutOfFuel
      end
  end.

(* rvm — runs the extracted Coq model on scripts; one result line per script line. *)
open Model
open Conv

let dispatch (f : string array) : string option =
  let a i = if i < Array.length f then arg_str f.(i) else [] in
  match f.(0) with
  | "components" -> Some (out_comps (api_components (a 1)))
  | "std_push" -> Some (out_str (api_push (a 1) (a 2)))
  | "std_parent" -> Some (out_opt_str (api_parent (a 1)))
  | "std_file_name" -> Some (out_opt_str (api_file_name (a 1)))
  | "std_extension" -> Some (out_opt_str (api_extension (a 1)))
  | "std_eq" -> Some (out_bool (api_path_eqb (a 1) (a 2)))
  | "std_starts_with" -> Some (out_bool (api_path_starts_with (a 1) (a 2)))
  | "std_collect" -> Some (out_str (api_render (api_components (a 1))))
  | "clean" -> Some (out_outcome out_str (api_clean (a 1)))
  | "clean2" ->
      Some (match api_clean (a 1) with Done r -> out_outcome out_str (api_clean r) | _ -> "PANIC")
  | "go_clean" -> Some (out_outcome out_str (api_go_clean (a 1)))
  | "clean_spec" -> Some (out_str (api_clean_spec (a 1)))
  | "normal_form" -> Some (out_bool (api_normal_form_b (a 1)))
  | "relative" -> Some (out_str (api_relative (a 1) (a 2)))
  | "relative_spec" -> Some (out_str (api_relative_spec (a 1) (a 2)))
  | "relative_check" -> Some (out_bool (api_relative_check (a 1) (a 2) (a 3)))
  | "base" | "last" -> Some (out_res out_str (api_base (a 1)))
  | "first" -> Some (out_res out_str (api_first (a 1)))
  | "dir" -> Some (out_res out_str (api_dir (a 1)))
  | "ext" -> Some (out_res out_str (api_ext (a 1)))
  | "name" -> Some (out_res out_str (api_name (a 1)))
  | "trim_prefix" -> Some (out_str (api_trim_prefix (a 1) (a 2)))
  | "trim_suffix" -> Some (out_str (api_trim_suffix (a 1) (a 2)))
  | "trim_ext" -> Some (out_str (api_trim_ext (a 1)))
  | "has" -> Some (out_bool (api_has (a 1) (a 2)))
  | "has_prefix" -> Some (out_bool (api_has_prefix (a 1) (a 2)))
  | "has_suffix" -> Some (out_bool (api_has_suffix (a 1) (a 2)))
  | "mash" -> Some (out_str (api_mash (a 1) (a 2)))
  | "trim_first" -> Some (out_str (api_trim_first (a 1)))
  | "trim_last" -> Some (out_str (api_trim_last (a 1)))
  | "concat" -> Some (out_str (api_concat (a 1) (a 2)))
  | "parse_paths" -> Some (out_strlist (api_parse_paths (a 1)))
  | "is_empty" -> Some (out_bool (api_is_empty (a 1)))
  | "trim_protocol" -> Some (out_str (api_trim_protocol (a 1)))
  | "true" -> Some "B:1"
  | "kf_ext_class" -> Some (out_bool (api_kf_ext_class (a 1)))
  | "is_absolute" -> Some (out_bool (api_is_absolute (a 1)))
  | _ -> Extra.dispatch f

let () =
  if Array.length Sys.argv > 1 && Sys.argv.(1) = "--bfs" then begin
    (* rvm --bfs <alphabet-file> <depth> <maxstates> <out> <envspec> *)
    let ic = open_in Sys.argv.(2) in
    let alpha = ref [] in
    (try while true do let l = input_line ic in if l <> "" then alpha := l :: !alpha done with End_of_file -> ());
    let oc = open_out Sys.argv.(5) in
    let envs = if Array.length Sys.argv > 6 then Sys.argv.(6) else "-" in
    Memdrv.bfs (Conv.parse_env envs) (List.rev !alpha) (int_of_string Sys.argv.(3)) (int_of_string Sys.argv.(4)) oc envs;
    close_out oc;
    exit 0
  end;
  let ic = open_in Sys.argv.(1) in
  let oc = if Array.length Sys.argv > 2 then open_out Sys.argv.(2) else stdout in
  (try
     while true do
       let line = input_line ic in
       if line = "" || line.[0] = '#' then (output_string oc line; output_char oc '\n')
       else
         let f = Array.of_list (String.split_on_char '\t' line) in
         match dispatch f with
         | Some r -> output_string oc r; output_char oc '\n'
         | None -> output_string oc ("UNKNOWN " ^ f.(0) ^ "\n")
     done
   with End_of_file -> ());
  close_out oc;
  if Array.length Sys.argv > 2 && !Memdrv.ref_total > 0 then begin
    let rc = open_out (Sys.argv.(2) ^ ".refcov") in
    Printf.fprintf rc "%d %d %d\n" !Memdrv.ref_covered !Memdrv.ref_total !Memdrv.ref_bad;
    close_out rc
  end

(* memdrv.ml — histories over the extracted Memfs mirror: op parsing, result and snapshot printing,
   and breadth-first enumeration of the reachable states of a bounded universe (trusted glue). *)
open Model
open Conv

let split_colon s = String.split_on_char ':' s
let strlist h = if h = "" then [] else List.map arg_str (String.split_on_char ',' h)

let parse_op (s : string) : op =
  match split_colon s with
  | ["abs"; p] -> OAbs (arg_str p)
  | ["exists"; p] -> OExists (arg_str p)
  | ["is_dir"; p] -> OIsDir (arg_str p)
  | ["is_file"; p] -> OIsFile (arg_str p)
  | ["is_symlink"; p] -> OIsSymlink (arg_str p)
  | ["is_symlink_dir"; p] -> OIsSymlinkDir (arg_str p)
  | ["is_symlink_file"; p] -> OIsSymlinkFile (arg_str p)
  | ["is_exec"; p] -> OIsExec (arg_str p)
  | ["is_readonly"; p] -> OIsReadonly (arg_str p)
  | ["mode"; p] -> OMode (arg_str p)
  | ["owner"; p] -> OOwner (arg_str p)
  | ["uid"; p] -> OUid (arg_str p)
  | ["gid"; p] -> OGid (arg_str p)
  | ["cwd"] -> OCwd
  | ["root"] -> ORoot
  | ["set_cwd"; p] -> OSetCwd (arg_str p)
  | ["mkfile"; p] -> OMkfile (arg_str p)
  | ["mkdir_p"; p] -> OMkdirP (arg_str p)
  | ["mkdir_m"; p; m] -> OMkdirM (arg_str p, n_of_int (int_of_string m))
  | ["write_all"; p; d] -> OWriteAll (arg_str p, bytes_of_hex d)
  | ["write_lines"; p; ls] -> OWriteLines (arg_str p, List.map bytes_of_hex (if ls = "" then [] else String.split_on_char ',' ls))
  | ["append_all"; p; d] -> OAppendAll (arg_str p, bytes_of_hex d)
  | ["append_line"; p; l] -> OAppendLine (arg_str p, bytes_of_hex l)
  | ["append_lines"; p; ls] -> OAppendLines (arg_str p, List.map bytes_of_hex (if ls = "" then [] else String.split_on_char ',' ls))
  | ["read_all"; p] -> OReadAll (arg_str p)
  | ["read_lines"; p] -> OReadLines (arg_str p)
  | ["remove"; p] -> ORemove (arg_str p)
  | ["remove_all"; p] -> ORemoveAll (arg_str p)
  | ["symlink"; l; t] -> OSymlink (arg_str l, arg_str t)
  | ["readlink"; p] -> OReadlink (arg_str p)
  | ["readlink_abs"; p] -> OReadlinkAbs (arg_str p)
  | ["move_p"; s; d] -> OMoveP (arg_str s, arg_str d)
  | _ -> Extops.parse_op s

let result_s (r : result) : string =
  match r with
  | Inl VUnit -> "ok"
  | Inl (VBool b) -> if b then "b1" else "b0"
  | Inl (VPath p) -> "p" ^ hex_str p
  | Inl (VBytes d) -> "d" ^ hex_of_bytes d
  | Inl (VLines ls) -> "l" ^ String.concat "," (List.map hex_of_bytes ls)
  | Inl (VNum n) -> "n" ^ string_of_int (int_of_n n)
  | Inl (VPair (a, b)) -> Printf.sprintf "q%d,%d" (int_of_n a) (int_of_n b)
  | Inl v -> Extops.rval_s v
  | Inr e -> errkind_s e

let rp (p : n list list) : string = hex_str (api_render_rpath p)

let snapshot (m : mfs) : string =
  let ents = List.map (fun (k, e) ->
      let files = match api_files_list e with
        | None -> "-"
        | Some l -> "[" ^ String.concat "," (List.sort compare (List.map hex_str l)) ^ "]" in
      Printf.sprintf "%s:%s:%s:%s:%d%d%d:%d:%d:%d:%s" (rp k) (rp e.e_path)
        (match e.e_alt with Some a -> rp a | None -> "") (hex_str e.e_rel)
        (if e.e_dir then 1 else 0) (if e.e_file then 1 else 0) (if e.e_link then 1 else 0)
        (int_of_n e.e_mode) (int_of_n e.e_uid) (int_of_n e.e_gid) files)
      (api_mfs_entries m) in
  let data = List.map (fun (k, d) -> rp k ^ ":" ^ hex_of_bytes d) (api_mfs_data m) in
  Printf.sprintf "cwd=%s;root=%s;E{%s};D{%s};wf=%d" (rp m.m_cwd) (rp m.m_root)
    (String.concat ";" (List.sort compare ents)) (String.concat ";" (List.sort compare data))
    (if api_wf_b m then 1 else 0)

(* run a history from the fresh filesystem: per-op results, then the final state *)
let macro_names = ["exists"; "no_exists"; "is_dir"; "no_dir"; "is_file"; "no_file"; "is_symlink"; "no_symlink"; "read_all"; "readlink";
                   "readlink_abs"; "mkdir_p"; "mkdir_m"; "mkfile"; "write_all"; "symlink"; "remove"; "remove_all"]
let macro_id_s = function
  | M_exists -> "exists" | M_no_exists -> "no_exists" | M_is_dir -> "is_dir" | M_no_dir -> "no_dir" | M_is_file -> "is_file"
  | M_no_file -> "no_file" | M_is_symlink -> "is_symlink" | M_no_symlink -> "no_symlink" | M_read_all -> "read_all"
  | M_readlink -> "readlink" | M_readlink_abs -> "readlink_abs" | M_mkdir_p -> "mkdir_p" | M_mkdir_m -> "mkdir_m" | M_mkfile -> "mkfile"
  | M_write_all -> "write_all" | M_symlink -> "symlink" | M_remove -> "remove" | M_remove_all -> "remove_all" | M_copyfile -> "copyfile"
let rec index_of x l i = match l with [] -> -1 | y :: r -> if x = y then i else index_of x r (i + 1)

(* reference filesystem next to the mirror: calls the reference covered / all calls / disagreements (written beside the output by the driver) *)
let ref_covered = ref 0
let ref_total = ref 0
let ref_bad = ref 0

let run_hist ?(two = false) (env : (n list * n list) list) (ops : string list) : string =
  let rec go m t ops acc =
    match ops with
    | [] -> String.concat "\t" (List.rev acc) ^ "\t#" ^ snapshot m
    | o :: rest when String.length o > 6 && String.sub o 0 6 = "macro:" ->
        (* macro:<name>:<a>:<b>:<mode> *)
        let f = Array.of_list (split_colon o) in
        let g i = if i < Array.length f then f.(i) else "" in
        let idx = index_of (g 1) macro_names 0 in
        let mode = if g 4 = "" then 0 else int_of_string (g 4) in
        let b = if g 1 = "read_all" || g 1 = "write_all" then bytes_of_hex (g 3) else arg_str (g 3) in
        (match api_macro env m (n_of_int idx) (arg_str (g 2)) b (n_of_int mode) with
         | Done (m', Pass) -> go m' (api_ref_of m') rest ("pass" :: acc)
         | Done (m', Panics (name, _)) -> go m' (api_ref_of m') rest (("panic:assert_vfs_" ^ macro_id_s name ^ "!") :: acc)
         | Panic -> String.concat "\t" (List.rev ("PANIC" :: acc))
         | OutOfFuel -> String.concat "\t" (List.rev ("HANG" :: acc)))
    | o :: rest ->
        let acc = if two && rest = [] then ("#pre" ^ snapshot m) :: acc else acc in
        let pop = parse_op o in
        (* an entries call: the traversal machine must return what the proved recursion (Memfs/WalkSpec.v) denotes *)
        let sw_ok = match pop with
          | OEntries (s, wo) ->
              (match api_walk_vs_spec env m s wo with
               | Some (Done evs, Some evs') -> evs = evs'
               | Some (OutOfFuel, Some _) -> false
               | _ -> true)
          | _ -> true in
        (match api_mfs_step env m pop with
         | Done (m', r) ->
             (* the reference tree filesystem on its own tree: same value, same tree (Memfs/RefineHistory.v history_refines) *)
             incr ref_total;
             let (ref_ok, t') = match api_ref_step env t pop with
               | Some (t1, r1) -> incr ref_covered; ((r1 = r && api_tree_list t1 = api_tree_list (api_ref_of m')), t1)
               | None -> (true, api_ref_of m') in
             if not ref_ok then incr ref_bad;
             go m' (if ref_ok then t' else api_ref_of m') rest (((if sw_ok then "" else "!SWSPEC ") ^ (if ref_ok then "" else "!REFSPEC ") ^ result_s r) :: acc)
         | Panic -> String.concat "\t" (List.rev ("PANIC" :: acc))
         | OutOfFuel -> String.concat "\t" (List.rev ("HANG" :: acc)))
  in
  go api_mfs_init api_ref_init ops []

(* breadth-first enumeration: every (reachable state, call) of the alphabet up to a depth *)
let bfs (env : (n list * n list) list) (alphabet : string list) (depth : int) (maxstates : int) (oc : out_channel) (envs : string) =
  let seen = Hashtbl.create 4096 in
  let q = Queue.create () in
  Hashtbl.add seen (snapshot api_mfs_init) ();
  Queue.add (api_mfs_init, [], 0) q;
  (* an alphabet line starting with '!' is a final call only: it is issued in every state but not used to reach new states *)
  let parsed = List.map (fun o ->
      if String.length o > 0 && o.[0] = '!' then let o' = String.sub o 1 (String.length o - 1) in (o', None, false)
      else (o, Some (parse_op o), true)) alphabet in
  let mode = try Sys.getenv "RVM_BFS_MODE" with Not_found -> "m" in
  let nstates = ref 1 in
  while not (Queue.is_empty q) do
    let (m, hist, d) = Queue.pop q in
    List.iter (fun (os, o, expand) ->
        output_string oc (String.concat "\t" (["hist"; mode; envs] @ List.rev (os :: hist)));
        output_char oc '\n';
        if expand && d < depth && !nstates < maxstates then
          match api_mfs_step env m (match o with Some x -> x | None -> assert false) with
          | Done (m', _) ->
              let key = snapshot m' in
              if not (Hashtbl.mem seen key) then begin
                Hashtbl.add seen key ();
                incr nstates;
                Queue.add (m', os :: hist, d + 1) q
              end
          | _ -> ()) parsed
  done;
  Printf.eprintf "bfs: %d states\n" !nstates

(* parse a snapshot string (either side's) back into a mirror state *)
let parse_snapshot (s : string) : mfs =
  let find_section tag close =
    let i = Str_find.find s tag in
    let j = String.index_from s (i + String.length tag) close in
    String.sub s (i + String.length tag) (j - i - String.length tag) in
  let field name =
    let tag = name ^ "=" in
    let i = Str_find.find s tag in
    let j = try String.index_from s i ';' with Not_found -> String.length s in
    String.sub s (i + String.length tag) (j - i - String.length tag) in
  let rp_of h = api_rpath_of_string (arg_str h) in
  let items sec = if sec = "" then [] else String.split_on_char ';' sec in
  let ents = List.map (fun it ->
      match String.split_on_char ':' it with
      | [k; p; alt; rel; dfl; mode; uid; gid; files] ->
          let fs = if files = "-" then None
            else let inner = String.sub files 1 (String.length files - 2) in
              Some (api_set_of_list (if inner = "" then [] else List.map arg_str (String.split_on_char ',' inner))) in
          (rp_of k, api_mk_entry (rp_of p) (if alt = "" then None else Some (rp_of alt)) (arg_str rel)
                      (dfl.[0] = '1') (dfl.[1] = '1') (dfl.[2] = '1')
                      (n_of_int (int_of_string mode)) (n_of_int (int_of_string uid)) (n_of_int (int_of_string gid)) false fs)
      | _ -> failwith "snapshot entry") (items (find_section "E{" '}')) in
  let data = List.map (fun it ->
      match String.split_on_char ':' it with
      | [k; d] -> (rp_of k, bytes_of_hex d)
      | _ -> failwith "snapshot data") (items (find_section "D{" '}')) in
  api_mfs_of_lists (rp_of (field "cwd")) (rp_of (field "root")) ents data

(* histories with explicit write / append handles interleaved with plain calls *)
let parse_hop (s : string) : hop =
  match split_colon s with
  | ["open_w"; p] -> HOpenWrite (arg_str p)
  | ["open_a"; p] -> HOpenAppend (arg_str p)
  | ["hwrite"; i; d] -> HWrite (nat_of_int (int_of_string i), bytes_of_hex d)
  | ["hflush"; i] -> HFlush (nat_of_int (int_of_string i))
  | ["hdrop"; i] -> HDrop (nat_of_int (int_of_string i))
  | _ -> HPlain (parse_op s)

let run_hhist (env : (n list * n list) list) (ops : string list) : string =
  let rec go st ops acc =
    match ops with
    | [] -> String.concat "\t" (List.rev acc) ^ "\t#" ^ snapshot st.hs_fs
    | o :: rest ->
        (match api_hstep env st (parse_hop o) with
         | Done (st', r) -> go st' rest (result_s r :: acc)
         | Panic -> String.concat "\t" (List.rev ("PANIC" :: acc))
         | OutOfFuel -> String.concat "\t" (List.rev ("HANG" :: acc)))
  in
  go api_h_init ops []

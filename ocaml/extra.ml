(* extra.ml — dispatch for the model entry points added after the path layer *)
let dispatch (_ : string array) : string option = None

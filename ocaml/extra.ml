(* extra.ml — dispatch for the model entry points added after the path layer *)
open Model
open Conv

let dispatch (f : string array) : string option =
  let a i = if i < Array.length f then arg_str f.(i) else [] in
  let nat i = nat_of_int (int_of_string f.(i)) in
  let z i = z_of_string f.(i) in
  match f.(0) with
  | "defer" ->
      (* defer <tokens>: D<n> L<n> { } R P *)
      let toks = List.filter (fun x -> x <> "") (String.split_on_char ' ' f.(1)) in
      let rec parse toks : stmts * string list =
        match toks with
        | [] -> (SNil, [])
        | "}" :: rest -> (SNil, rest)
        | "{" :: rest -> let (body, rest1) = parse rest in let (tl, rest2) = parse rest1 in (SCons (SScope body, tl), rest2)
        | "R" :: rest -> let (tl, rest1) = parse rest in (SCons (SReturn, tl), rest1)
        | "P" :: rest -> let (tl, rest1) = parse rest in (SCons (SPanic, tl), rest1)
        | t :: rest ->
            let n = nat_of_int (int_of_string (String.sub t 1 (String.length t - 1))) in
            let (tl, rest1) = parse rest in
            (SCons ((if t.[0] = 'D' then SDefer n else SLog n), tl), rest1) in
      let (prog, _) = parse toks in
      let (log, e) = api_defer_run prog in
      Some (Printf.sprintf "log=%s;exit=%s" (String.concat "," (List.map (fun n -> string_of_int (int_of_nat n)) log))
              (match e with Normal -> "N" | Returned -> "R" | Panicked -> "P"))
  | "it_drop" -> Some (out_nlist (api_it_drop (nat 1) (z 2)))
  | "it_drop_spec" -> Some (out_nlist (api_it_drop_spec (nat 1) (z 2)))
  | "it_slice" -> Some (out_nlist (api_it_slice (nat 1) (z 2) (z 3)))
  | "it_slice_spec" -> Some (out_nlist (api_it_slice_spec (nat 1) (z 2) (z 3)))
  | "it_first" -> Some (match api_it_first (nat 1) with Some n -> out_num n | None -> "NONE")
  | "it_first_result" -> Some (out_sum (api_it_first_result (nat 1)))
  | "it_last_result" -> Some (out_sum (api_it_last_result (nat 1)))
  | "it_single" -> Some (out_sum (api_it_single (nat 1)))
  | "it_some" -> Some (out_bool (api_it_some (nat 1)))
  | "it_consume" -> Some (out_nlist (api_it_consume (nat 1)))
  | "str_size" -> Some (out_num (api_str_size (a 1)))
  | "str_to_bool" -> Some (out_bool (api_str_to_bool (a 1)))
  | "str_trim_suffix" -> Some (out_str (api_str_trim_suffix (a 1) (a 2)))
  | "opt_has" ->
      let o = if f.(1) = "none" then None else Some (n_of_int (int_of_string f.(1))) in
      Some (out_bool (api_opt_has o (n_of_int (int_of_string f.(2)))))
  | "take_while_ne" ->
      let (t, r) = api_take_while_ne (n_of_int (int_of_string f.(1))) (a 2) in
      Some ("T:" ^ hex_str t ^ "|" ^ hex_str r)
  | "hread" | "hread_cursor" ->
      (* hread <backend> <data> <ops> *)
      let data = bytes_of_hex f.(2) in
      let ops = parse_rops (if Array.length f > 3 then f.(3) else "") in
      if f.(0) = "hread" then
        Some (match api_mf_run data ops with
              | Done (fl, rs) -> String.concat ";" (List.map rres_s rs) ^ "|pos=" ^ string_of_z fl.mf_pos
              | Panic -> "PANIC" | OutOfFuel -> "OUTOFFUEL")
      else
        let (c, rs) = api_c_run data ops in
        Some (String.concat ";" (List.map rres_s rs) ^ "|pos=" ^ string_of_z c.c_pos)
  | "hwrite" ->
      (* hwrite <backend> <w|a> <old> <removed 0|1> <ops> *)
      let tr = api_wh_trace (f.(2) = "a") (bytes_of_hex f.(3)) (f.(4) = "1")
                 (parse_wops (if Array.length f > 5 then f.(5) else "")) in
      Some (String.concat ";" (List.map (function Some b -> "c" ^ hex_of_bytes b | None -> "none") tr))
  | "hist" ->
      (* hist <mode> <envspec> <op>... *)
      let ops = Array.to_list (Array.sub f 3 (Array.length f - 3)) in
      let two = String.length f.(1) > 0 && f.(1).[String.length f.(1) - 1] = '2' in
      if f.(1) = "h" then Some (Memdrv.run_hhist (parse_env f.(2)) ops)
      else Some (Memdrv.run_hist ~two (parse_env f.(2)) ops)
  | "lin" ->
      (* lin <env> <setup> <outcomes> <thread program>... *)
      Some (Lin.run (Array.to_list (Array.sub f 1 (Array.length f - 1))))
  | "wfcheck" ->
      (* wfcheck <snapshot>: the extracted WF checker on a state snapshot (of the implementation) *)
      Some (try out_bool (api_wf_b (Memdrv.parse_snapshot f.(1))) with _ -> "B:0")
  | "expand" -> Some (out_res out_str (api_expand (parse_env f.(1)) (a 2)))
  | "abs_m" | "abs_s" -> Some (out_res out_str (api_abs (parse_env f.(1)) (a 2) (a 3)))
  | "xdg" ->
      (* xdg <envspec> <fn> *)
      let e = parse_env f.(1) in
      let home k = Some (out_res out_str (api_xdg_home (n_of_int k) e)) in
      let dirs k = Some (out_res out_strlist (api_xdg_dirs (n_of_int k) e)) in
      (match f.(2) with
       | "config_dir" -> home 0 | "cache_dir" -> home 1 | "data_dir" -> home 2 | "state_dir" -> home 3
       | "runtime_dir" -> home 4 | "sys_config_dirs" -> dirs 0 | "sys_data_dirs" -> dirs 1 | "path_dirs" -> dirs 2
       | _ -> None)
  | "getrids" ->
      let (u, g) = api_getrids (parse_env f.(1)) (n_of_int (int_of_string f.(2))) (n_of_int (int_of_string f.(3))) in
      Some (Printf.sprintf "P:%d,%d" (int_of_n u) (int_of_n g))
  | "vfs_config_dir_m" | "vfs_config_dir_s" ->
      let files = if Array.length f > 3 && f.(3) <> "" then List.map arg_str (String.split_on_char ',' f.(3)) else [] in
      Some (out_opt_str (api_vfs_config_dir (parse_env f.(1)) (a 2) files))
  | "sym_mode" ->
      (* sym_mode <kind f|d|lf|ld> <mode> <octal> <sym> *)
      let kd = f.(1) in
      let dir = (kd = "d" || kd = "ld") and file = (kd = "f" || kd = "lf") and link = (kd = "lf" || kd = "ld") in
      let nn i = n_of_int (int_of_string f.(i)) in
      Some (match api_sym_mode dir file link (nn 2) (nn 3) (a 4) with
            | Inl m -> "N:" ^ string_of_int (int_of_n m)
            | Inr EChmod -> "E:VfsInvalidChmod" | Inr EChmodTarget -> "E:VfsInvalidChmodTarget"
            | Inr EChmodGroup -> "E:VfsInvalidChmodGroup" | Inr EChmodOp -> "E:VfsInvalidChmodOp"
            | Inr EChmodPerms -> "E:VfsInvalidChmodPermissions")
  | "revoking_mode" ->
      Some (out_bool (api_revoking_mode (n_of_int (int_of_string f.(1))) (n_of_int (int_of_string f.(2)))))
  | _ -> None

(* str_find.ml — substring search (the OCaml Str library is not linked) *)
let find (s : string) (sub : string) : int =
  let n = String.length s and m = String.length sub in
  let rec go i = if i + m > n then raise Not_found else if String.sub s i m = sub then i else go (i + 1) in
  go 0

(* extops.ml — parsing/printing of the traversal-based operations (added with Memfs/WalkOps.v) *)
open Model
let parse_op (s : string) : op = failwith ("unknown op " ^ s)
let rval_s (_ : rval) : string = "?"

(* extops.ml — parsing/printing of the traversal-based operations (Memfs/WalkOps.v) *)
open Model
open Conv

(* option strings: k=v,k=v *)
let kv (s : string) : (string * string) list =
  if s = "" || s = "-" then [] else
  List.map (fun x -> match String.index_opt x '=' with
      | Some i -> (String.sub x 0 i, String.sub x (i + 1) (String.length x - i - 1))
      | None -> (x, "1")) (String.split_on_char ',' s)
let geti o k d = try int_of_string (List.assoc k o) with Not_found -> d
let getb o k = geti o k 0 <> 0
let has o k = List.mem_assoc k o

(* entries options in builder-call order: the string lists the calls, e.g. "follow=1,min=1,max=2,sort,df,ff,cf,dirs,files,maxdesc=1" *)
let wopts_of (s : string) : wopts =
  List.fold_left (fun o (k, v) ->
      match k with
      | "follow" -> w_follow o (v <> "0")
      | "min" -> w_min_depth o (nat_of_int (int_of_string v))
      | "max" -> w_max_depth o (Some (nat_of_int (int_of_string v)))
      | "sort" -> w_sort_by_name o
      | "df" -> w_dirs_first o
      | "ff" -> w_files_first o
      | "cf" -> w_contents_first o
      | "dirs" -> w_dirs o
      | "files" -> w_files o
      | "maxdesc" -> w_maxdesc o (n_of_int (int_of_string v))
      | _ -> failwith ("wopt " ^ k)) default_wopts (kv s)

let parse_op (s : string) : op =
  match String.split_on_char ':' s with
  | ["paths"; p] -> OList (LPaths, arg_str p)
  | ["dirs"; p] -> OList (LDirs, arg_str p)
  | ["files"; p] -> OList (LFiles, arg_str p)
  | ["all_paths"; p] -> OList (LAllPaths, arg_str p)
  | ["all_dirs"; p] -> OList (LAllDirs, arg_str p)
  | ["all_files"; p] -> OList (LAllFiles, arg_str p)
  | ["entries"; p; o] -> OEntries (arg_str p, wopts_of o)
  | ["copy"; a; b] -> OCopy (arg_str a, arg_str b, { cp_mode = None; cp_cdirs = false; cp_cfiles = false; cp_follow = false })
  | ["copy_b"; a; b; o] ->
      let o = kv o in
      let mode, cd, cf =
        if has o "all" then (Some (n_of_int (geti o "all" 0)), false, false)
        else if has o "cdirs" then (Some (n_of_int (geti o "cdirs" 0)), true, false)
        else if has o "cfiles" then (Some (n_of_int (geti o "cfiles" 0)), false, true)
        else (None, false, false) in
      OCopy (arg_str a, arg_str b, { cp_mode = mode; cp_cdirs = cd; cp_cfiles = cf; cp_follow = getb o "follow" })
  | ["chmod"; p; m] ->
      let m = n_of_int (int_of_string m) in
      OChmod (arg_str p, { ch_dirs = m; ch_files = m; ch_follow = false; ch_recursive = true; ch_sym = [] })
  | ["chmod_b"; p; o; sym] ->
      let o = kv o in
      let all = geti o "all" 0 in
      OChmod (arg_str p, { ch_dirs = n_of_int (if has o "dirs" then geti o "dirs" 0 else all);
                           ch_files = n_of_int (if has o "files" then geti o "files" 0 else all);
                           ch_follow = getb o "follow"; ch_recursive = not (has o "norecurse"); ch_sym = arg_str sym })
  | ["chown"; p; u; g] ->
      OChown (arg_str p, { co_uid = Some (n_of_int (int_of_string u)); co_gid = Some (n_of_int (int_of_string g));
                           co_follow = false; co_recursive = true })
  | ["chown_b"; p; o] ->
      let o = kv o in
      OChown (arg_str p, { co_uid = (if has o "uid" then Some (n_of_int (geti o "uid" 0)) else None);
                           co_gid = (if has o "gid" then Some (n_of_int (geti o "gid" 0)) else None);
                           co_follow = getb o "follow"; co_recursive = not (has o "norecurse") })
  | ["mkfile_m"; p; m] -> OMkfileM (arg_str p, n_of_int (int_of_string m))
  | _ -> failwith ("unknown op " ^ s)

let rval_s (v : rval) : string =
  match v with
  | VPaths ps -> "L" ^ String.concat "," (List.map hex_str ps)
  | VItems is -> "I" ^ String.concat "," (List.map (function Inl p -> hex_str p | Inr e -> errkind_s e) is)
  | _ -> "?"

(* conv.ml — conversions between OCaml values and the extracted inductive types (trusted glue). *)
open Model

let rec pos_of_int n =
  if n = 1 then XH else if n land 1 = 0 then XO (pos_of_int (n lsr 1)) else XI (pos_of_int (n lsr 1))
let n_of_int n = if n = 0 then N0 else Npos (pos_of_int n)
let rec int_of_pos = function XH -> 1 | XO p -> 2 * int_of_pos p | XI p -> 2 * int_of_pos p + 1
let int_of_n = function N0 -> 0 | Npos p -> int_of_pos p
let rec nat_of_int n = if n <= 0 then O else S (nat_of_int (n - 1))
let rec int_of_nat = function O -> 0 | S n -> 1 + int_of_nat n

let unhex (s : string) : string =
  let n = String.length s / 2 in
  String.init n (fun i -> Char.chr (int_of_string ("0x" ^ String.sub s (2 * i) 2)))
let hex (s : string) : string =
  let b = Buffer.create (2 * String.length s) in
  String.iter (fun c -> Buffer.add_string b (Printf.sprintf "%02x" (Char.code c))) s;
  Buffer.contents b

(* UTF-8 bytes -> list of scalar values (inputs are valid UTF-8 by construction) *)
let str_of_utf8 (s : string) : n list =
  let len = String.length s in
  let rec go i acc =
    if i >= len then List.rev acc
    else
      let c = Char.code s.[i] in
      if c < 0x80 then go (i + 1) (n_of_int c :: acc)
      else if c < 0xE0 then
        go (i + 2) (n_of_int (((c land 0x1F) lsl 6) lor (Char.code s.[i + 1] land 0x3F)) :: acc)
      else if c < 0xF0 then
        go (i + 3)
          (n_of_int (((c land 0x0F) lsl 12) lor ((Char.code s.[i + 1] land 0x3F) lsl 6)
                     lor (Char.code s.[i + 2] land 0x3F)) :: acc)
      else
        go (i + 4)
          (n_of_int (((c land 0x07) lsl 18) lor ((Char.code s.[i + 1] land 0x3F) lsl 12)
                     lor ((Char.code s.[i + 2] land 0x3F) lsl 6) lor (Char.code s.[i + 3] land 0x3F)) :: acc)
  in
  go 0 []

let utf8_of_str (l : n list) : string =
  let b = Buffer.create 16 in
  List.iter
    (fun c ->
      let u = int_of_n c in
      if u < 0x80 then Buffer.add_char b (Char.chr u)
      else if u < 0x800 then (
        Buffer.add_char b (Char.chr (0xC0 lor (u lsr 6)));
        Buffer.add_char b (Char.chr (0x80 lor (u land 0x3F))))
      else if u < 0x10000 then (
        Buffer.add_char b (Char.chr (0xE0 lor (u lsr 12)));
        Buffer.add_char b (Char.chr (0x80 lor ((u lsr 6) land 0x3F)));
        Buffer.add_char b (Char.chr (0x80 lor (u land 0x3F))))
      else (
        Buffer.add_char b (Char.chr (0xF0 lor (u lsr 18)));
        Buffer.add_char b (Char.chr (0x80 lor ((u lsr 12) land 0x3F)));
        Buffer.add_char b (Char.chr (0x80 lor ((u lsr 6) land 0x3F)));
        Buffer.add_char b (Char.chr (0x80 lor (u land 0x3F)))))
    l;
  Buffer.contents b

let arg_str (h : string) : n list = str_of_utf8 (unhex h)
let out_str (l : n list) : string = "S:" ^ hex (utf8_of_str l)
let hex_str (l : n list) : string = hex (utf8_of_str l)
let out_bool b = if b then "B:1" else "B:0"
let out_comps cs =
  "C:" ^ String.concat ","
    (List.map (function CRoot -> "R" | CCur -> "C" | CParent -> "P" | CNormal s -> "N" ^ hex_str s) cs)
let out_opt_str = function Some s -> out_str s | None -> "NONE"
let out_outcome f = function Done a -> f a | Panic -> "PANIC" | OutOfFuel -> "OUTOFFUEL"

let errkind_s = function
  | EItemNotFound -> "E:IterItemNotFound" | EParentNotFound -> "E:ParentNotFound"
  | EExtensionNotFound -> "E:ExtensionNotFound" | EEmpty -> "E:Empty"
  | EInvalidExpansion -> "E:InvalidExpansion" | EMultipleHomeSymbols -> "E:MultipleHomeSymbols"
  | EVarNotPresent -> "E:VarNotPresent" | EOther -> "E:Other"
  | EDoesNotExist -> "E:DoesNotExist" | EIsNotDir -> "E:IsNotDir" | EIsNotFile -> "E:IsNotFile"
  | EIsNotSymlink -> "E:IsNotSymlink" | EDirContainsFiles -> "E:DirContainsFiles" | EExistsAlready -> "E:ExistsAlready"
  | ELinkLooping -> "E:LinkLooping" | EInvalidData -> "E:IoInvalidData"
  | EInvChmod -> "E:VfsInvalidChmod" | EInvChmodTarget -> "E:VfsInvalidChmodTarget" | EInvChmodGroup -> "E:VfsInvalidChmodGroup"
  | EInvChmodOp -> "E:VfsInvalidChmodOp" | EInvChmodPerms -> "E:VfsInvalidChmodPermissions"
let out_res f = function Inl a -> f a | Inr e -> errkind_s e
let out_strlist l = "L:" ^ String.concat "," (List.map hex_str l)

(* decimal string (fits i64) -> Z *)
let rec pos_of_u64 (x : int64) : positive =
  if Int64.equal x 1L then XH
  else
    let rest = pos_of_u64 (Int64.shift_right_logical x 1) in
    if Int64.equal (Int64.logand x 1L) 0L then XO rest else XI rest
let z_of_string (s : string) : z =
  let x = Int64.of_string s in
  if Int64.equal x 0L then Z0
  else if Int64.compare x 0L > 0 then Zpos (pos_of_u64 x)
  else Zneg (pos_of_u64 (Int64.neg x))   (* neg min_int = min_int, read as unsigned 2^63 *)
let out_nlist l = "L:" ^ String.concat "," (List.map (fun n -> string_of_int (int_of_n n)) l)
let iter_err_s = function ItemNotFound -> "E:IterItemNotFound" | MultipleItemsFound -> "E:IterMultipleItemsFound"
let out_num n = "N:" ^ string_of_int (int_of_n n)
let out_sum = function Inl n -> out_num n | Inr e -> iter_err_s e

(* bytes <-> list N *)
let bytes_of_hex (h : string) : n list =
  let s = unhex h in List.init (String.length s) (fun i -> n_of_int (Char.code s.[i]))
let hex_of_bytes (l : n list) : string =
  String.concat "" (List.map (fun b -> Printf.sprintf "%02x" (int_of_n b)) l)
(* Z -> decimal string (values up to 2^64 need more than OCaml's int: go through Int64 unsigned) *)
let rec u64_of_pos = function
  | XH -> 1L
  | XO p -> Int64.shift_left (u64_of_pos p) 1
  | XI p -> Int64.logor (Int64.shift_left (u64_of_pos p) 1) 1L
let string_of_z = function
  | Z0 -> "0"
  | Zpos p -> Printf.sprintf "%Lu" (u64_of_pos p)
  | Zneg p -> "-" ^ Printf.sprintf "%Lu" (u64_of_pos p)
let z_of_ustring (s : string) : z =
  let x = Int64.of_string ("0u" ^ s) in
  if Int64.equal x 0L then Z0 else Zpos (pos_of_u64 x)
let parse_rops (s : string) : rop list =
  if s = "" then [] else
  List.map (fun t ->
      match t.[0] with
      | 'r' -> RRead (nat_of_int (int_of_string (String.sub t 1 (String.length t - 1))))
      | 's' ->
          let v = String.sub t 2 (String.length t - 2) in
          (match t.[1] with
           | 'S' -> RSeek (SeekStart (z_of_ustring v))
           | 'C' -> RSeek (SeekCurrent (z_of_string v))
           | _ -> RSeek (SeekEnd (z_of_string v)))
      | _ -> failwith "rop") (String.split_on_char ',' s)
let rres_s = function RBytes b -> "b" ^ hex_of_bytes b | RPos p -> "p" ^ string_of_z p | RInvalidInput -> "inv"
let parse_wops (s : string) : wop list =
  if s = "" then [] else
  List.map (fun t -> if t = "f" then WFlush else WWrite (bytes_of_hex (String.sub t 1 (String.length t - 1))))
    (String.split_on_char ',' s)

(* envspec: K=hexV;K2=hexV2  (absent = unset) *)
let parse_env (s : string) : (n list * n list) list =
  if s = "" || s = "-" then [] else
  List.map (fun kv ->
      match String.index_opt kv '=' with
      | Some i -> (str_of_utf8 (String.sub kv 0 i), arg_str (String.sub kv (i + 1) (String.length kv - i - 1)))
      | None -> failwith "envspec") (String.split_on_char ';' s)

(* lin.ml — C04: is an observed concurrent history linearizable with respect to the extracted sequential
   model?  Wing & Gong search: repeatedly pick a call none of whose unlinearized rivals responded before
   it was invoked, apply the model's step, require the observed result; at the end require the observed
   final state.  Memoised on (set of linearized calls, model state).
     lin <env> <setup ops ';'> <outcome>@@<outcome>...      outcome = "t:i:inv:resp:result|...#snapshot"
   every thread's program is recovered from the script line's remaining fields (ops ';'-joined per thread). *)
open Model
open Conv

type ev = { tid : int; idx : int; inv : int; resp : int; res : string; op : string }

let split_on (sep : string) (s : string) : string list =
  let n = String.length sep in
  let rec go i acc start =
    if i + n > String.length s then List.rev (String.sub s start (String.length s - start) :: acc)
    else if String.sub s i n = sep then go (i + n) (String.sub s start (i - start) :: acc) (i + n)
    else go (i + 1) acc start in
  go 0 [] 0

let step_s env m (o : string) : (mfs * string) option =
  match api_mfs_step env m (Memdrv.parse_op o) with
  | Done (m', r) -> Some (m', Memdrv.result_s r)
  | _ -> None

let check_outcome env (m0 : mfs) (progs : string array array) (outcome : string) : bool =
  match split_on "#" outcome with
  | [evs; snap] ->
      let evs = List.filter (fun x -> x <> "") (String.split_on_char '|' evs) in
      let evs = Array.of_list (List.map (fun e ->
          match String.split_on_char ':' e with
          | t :: i :: inv :: resp :: rest ->
              let t = int_of_string t and i = int_of_string i in
              { tid = t; idx = i; inv = int_of_string inv; resp = int_of_string resp; res = String.concat ":" rest; op = progs.(t).(i) }
          | _ -> failwith "event") evs) in
      let n = Array.length evs in
      let seen = Hashtbl.create 1024 in
      let rec go (doneset : int) (m : mfs) : bool =
        if doneset = (1 lsl n) - 1 then Memdrv.snapshot m = snap
        else begin
          let key = (doneset, Memdrv.snapshot m) in
          if Hashtbl.mem seen key then false else begin
            Hashtbl.add seen key ();
            let ok = ref false in
            let k = ref 0 in
            while not !ok && !k < n do
              let e = evs.(!k) in
              if doneset land (1 lsl !k) = 0 then begin
                (* program order and real-time precedence: nothing still pending responded before e was invoked *)
                let minimal = ref true in
                Array.iteri (fun j f -> if j <> !k && doneset land (1 lsl j) = 0 && f.resp < e.inv then minimal := false) evs;
                if !minimal then
                  match step_s env m e.op with
                  | Some (m', r) when r = e.res -> if go (doneset lor (1 lsl !k)) m' then ok := true
                  | _ -> ()
              end;
              incr k
            done;
            !ok
          end
        end in
      go 0 m0
  | _ -> false

(* fields: env; setup; outcomes; thread programs... *)
let run (fields : string list) : string =
  match fields with
  | envs :: setup :: outcomes :: progs ->
      let env = parse_env envs in
      let ops l = List.filter (fun x -> x <> "") (String.split_on_char ';' l) in
      let m0 = List.fold_left (fun m o -> match step_s env m o with Some (m', _) -> m' | None -> m) api_mfs_init (ops setup) in
      let progs = Array.of_list (List.map (fun p -> Array.of_list (ops p)) progs) in
      if outcomes = "DEADLOCK" then "B:0 deadlock" else
      let outs = split_on "@@" outcomes in
      let bad = List.filter (fun o -> String.length o >= 5 && (try ignore (Str_find.find o "PANIC"); true with Not_found -> false)) outs in
      if bad <> [] then "B:0 panic" else
      (match List.find_opt (fun o -> not (check_outcome env m0 progs o)) outs with
       | None -> "B:1"
       | Some o -> "B:0 " ^ o)
  | _ -> "B:0 malformed"
